"""C08 — optical signal chain (inverse-square, linearity, range cut, effective cone):
correspondence of the Lean model `Model.Eas` with the real `EAS.__call__` / `CphotAng.run` / `distance_to_detector`,
and the property-level (metamorphic) oracle on the real code."""
import contextlib
import io
import sys
import warnings

import numpy as np

warnings.filterwarnings("ignore")
from common import *  # noqa

RULE = ("cases = single events through the real EAS.__call__: (a) with the REAL Cherenkov kernel on paired detector "
        "configurations (detector altitudes, areas, quantum efficiencies, thresholds; exact ties altDec in {-0, 0, 20, "
        "20+ulp, -denormal}, PE/threshold = 2 exactly and its 1-ulp neighbours), the kernel's own per-event output being "
        "recorded from outside and fed to the model; (b) with a recording stub in place of the kernel (real wrapper code, "
        "prescribed densities/angles) for the structured/boundary/malformed streams; (c) distance_to_detector and the "
        "altitude-scaling tail of CphotAng.run against the model and against explicit vector geometry. A case is "
        "non-trivial when its (rounded) inputs are distinct; branches hit are counted in input_distribution")
ASSUMPTIONS = [
    "the kernel works in float32 (emergence angle, Earth radius, reference orbit): the inverse-square relation on the real "
    "code is checked with the conditioning-aware tolerance 2e-6 + 3e-6*R*(1/d_det + 1/d_525) (measured worst case about a "
    "tenth of it); the theorem is over the reals",
    "PE/threshold and the branch PE/threshold > 2 are compared exactly (same IEEE operations in model and code); cosines "
    "to 1e-12 (numpy vs libm log/cos differ by an ulp)",
    "a NaN decay altitude is not 'outside [0,20]' for the code's mask (both comparisons are false) and reaches the kernel; "
    "this is outside the property's domain and only counted (stub stream)",
]
TRUSTED_EXTRA = ["the recorder that wraps CphotAng.run / the EAS.CphotAng attribute from outside (records arguments and "
                 "returned values, changes nothing)"]

COS_DEFAULT = float(np.cos(np.radians(1.5)))


# the closed-form library functions of shower_properties.py (shower age, particle counts, track length, …): translated from the
# working tree (Gen/Src/C08Lib.lean), theorems in Props/C08Lib.lean (with the sine laws of the two angles) — obligations of this property
EXTRA_TARGETS = ["NssVerif.Props.C08Lib"]
EXTRA_THEOREMS = property_theorems("C08Lib")


def regen():
    import srctie
    return {**srctie.regen("C08"), **srctie.regen("C08Lib")}


def src_eas(ctx, beta, alt, E, lat, long, area, qe, thr, kd, kt, pe, cos):
    """the source of EAS.__call__ as translated (Gen/Src/C08.lean) at Float next to the real call; numPEs is arithmetic
    only (bit-identical), the cosine goes through log / sqrt / cos (an ulp or two)"""
    import srctie
    n = len(alt)
    ix = np.arange(n) if n <= 4000 else np.unique(np.concatenate([np.arange(400), np.linspace(0, n - 1, 3600).astype(int)]))
    cols = [np.asarray(c, dtype=np.float64)[ix] for c in (beta, alt, E, lat, long, np.full(n, area), np.full(n, qe), np.full(n, thr), kd, kt)]
    srctie.compare(ctx, "C08", "easCall", cols, [np.asarray(pe)[ix], np.asarray(cos)[ix]], rtol=1e-12, atol=1e-12)


@contextlib.contextmanager
def quiet():
    """the batch call prints a dask progress bar"""
    buf = io.StringIO()
    with contextlib.redirect_stdout(buf), warnings.catch_warnings():
        warnings.simplefilter("ignore")
        yield


def _mods():
    import dask
    import nuspacesim as nss
    from nuspacesim.config import Detector
    from nuspacesim.simulation.eas_optical import cphotang, detector_geometry
    from nuspacesim.simulation.eas_optical.eas import EAS
    return dask, nss, Detector, cphotang, detector_geometry, EAS


def make_cfg(nss, Detector, alt, area, qe, thr):
    cfg = nss.NssConfig(detector=Detector(
        initial_position=Detector.InitialPos(altitude=float(alt)),
        optical=Detector.Optical(telescope_effective_area=float(area), quantum_efficiency=float(qe),
                                 photo_electron_threshold=float(thr))))
    # keep the caller's numeric type for the altitude (float, np.float64 and np.float32 all occur in practice)
    cfg.detector.initial_position.altitude = alt
    cfg.detector.optical.photo_electron_threshold = float(thr)
    return cfg


class RunRecorder:
    """Wraps CphotAng.run (class attribute) from outside: records every event the kernel is asked to simulate and what
    it returned.  Nothing is changed."""

    def __init__(self, cphotang):
        self.cls = cphotang.CphotAng
        self.calls = []
        self.outs = []

    def __enter__(self):
        self.orig = self.cls.run
        rec = self

        def run(self_, betaE, alt, Eshow100PeV, lat, long, cloudf=None):
            rec.calls.append((float(betaE), float(alt), float(Eshow100PeV), float(lat), float(long)))
            out = rec.orig(self_, betaE, alt, Eshow100PeV, lat, long, cloudf)
            rec.outs.append((float(out[0]), float(out[1])))
            return out

        self.cls.run = run
        return self

    def __exit__(self, *a):
        self.cls.run = self.orig


class StubKernel:
    """Stands in for the CphotAng instance of an EAS object: returns prescribed (density, angle) per event; the event
    index travels in init_lat.  Records which events it was asked for."""

    def __init__(self, dens, thetas):
        self.dens = dens
        self.thetas = thetas
        self.asked = []

    def __call__(self, beta, alt, E, lat, long, cloudf=None):
        idx = np.asarray(lat).astype(int)
        self.asked += idx.tolist()
        return self.dens[idx], self.thetas[idx]

    def run(self, beta, alt, E, lat, long, cloudf=None):
        """the per-event entry point of the real kernel, should the stage reach for it directly: same prescription, same record"""
        d, t = self(np.array([beta]), np.array([alt]), np.array([E]), np.array([lat]), np.array([long]), cloudf)
        return d[0], t[0]


def chord(beta, z, zd, Re):
    """distance along the straight line leaving the sphere of radius Re at elevation beta, between the points at
    altitudes z and zd — explicit vector geometry: P(s) = (s cos b, Re + s sin b), |P(s)| = Re + altitude."""
    def s_of(alt):
        return -Re * np.sin(beta) + np.sqrt((Re * np.sin(beta)) ** 2 + 2.0 * Re * alt + alt * alt)
    s1, s2 = s_of(z), s_of(zd)
    p1 = np.array([s1 * np.cos(beta), Re + s1 * np.sin(beta)])
    p2 = np.array([s2 * np.cos(beta), Re + s2 * np.sin(beta)])
    return float(np.hypot(*(p2 - p1))) * (1.0 if s2 >= s1 else -1.0)


def expected_cos(theta, ratio):
    """the property's formula, evaluated independently"""
    if ratio > 2.0:
        f = max(1.0, float(np.sqrt(2.0 * np.log(ratio))))
        return float(np.cos(np.radians(theta * f)))
    return float(np.cos(np.radians(theta)))


def model_eas(alt, kd, kt, area, qe, thr):
    lines = [f"eas {f2h(alt[i])} {f2h(kd[i])} {f2h(kt[i])} {f2h(area)} {f2h(qe)} {f2h(thr)}" for i in range(len(alt))]
    out = run_driver_sharded(lines)
    return [(h2f(o[0]), h2f(o[1]), h2f(o[2]), o[3] == "1", o[4] == "1") for o in out]


def check_events(ctx, tag, alt, kd, kt, area, qe, thr, pe, cos, asked, cfgkey, malformed=False, sample_every=0):
    """Functional correspondence (model vs code) and the per-event property clauses on the code's outputs.
    kd/kt: what the kernel returned for the event (NaN where the kernel was not asked)."""
    res = model_eas(alt, kd, kt, area, qe, thr)
    asked = set(asked)
    for i, (pe_m, cos_m, theff_m, inr_m, gt2_m) in enumerate(res):
        a = float(alt[i])
        was_asked = i in asked
        ratio = float(pe[i]) / thr if thr != 0 else float("nan")
        out_of_range = (a < 0.0) or (a > 20.0)
        branch = ("out_low" if a < 0 else "out_high" if a > 20 else "nan_alt" if a != a else
                  "ratio>2" if ratio > 2 else "ratio=2" if ratio == 2 else "ratio<=2")
        ctx.count(f"{tag}.{branch}")
        if a in (0.0, 20.0):
            ctx.count(f"{tag}.tie_alt_{int(a)}")
        ctx.case((tag, cfgkey, round(a, 9), round(float(kd[i]), 6) if kd[i] == kd[i] else -1.0, branch),
                 {"op": "EAS.__call__", "stream": tag, "altDec": a, "kernel_dphots": float(kd[i]), "kernel_theta": float(kt[i]),
                  "area": area, "qe": qe, "thr": thr, "numPEs": float(pe[i]), "costhetaChEff": float(cos[i]),
                  "model": [pe_m, cos_m]} if sample_every and i % sample_every == 0 else None)
        case = {"altDec": a, "altDec_hex": f2h(a), "kernel_dphots": float(kd[i]), "kernel_theta": float(kt[i]), "area": area,
                "qe": qe, "thr": thr, "numPEs": float(pe[i]), "costhetaChEff": float(cos[i]), "kernel_called": was_asked}
        # ---- model vs code
        if inr_m != was_asked:
            ctx.disagree("C08.range_mask", {**case, "model_inRange": inr_m})
        if not (close(pe_m, pe[i], 0.0, 0.0) and close(cos_m, cos[i], 1e-12, 1e-12)):
            ctx.disagree("C08.signal", {**case, "model": [pe_m, cos_m]})
        if malformed:
            continue
        # ---- property-level oracle on the REAL outputs
        if out_of_range:
            if was_asked:
                ctx.violation("EAS.__call__", "out-of-range-simulated", "the kernel was called for a decay outside [0,20] km", case)
            if not (float(pe[i]) == 0.0 and float(cos[i]) == COS_DEFAULT):
                ctx.violation("EAS.__call__", "out-of-range-not-default", "decay outside [0,20] km does not give exactly (0, cos 1.5 deg)", case)
            continue
        if a != a:
            continue
        if not was_asked:
            ctx.violation("EAS.__call__", "in-range-not-simulated", "decay inside [0,20] km was not handed to the kernel", case)
            continue
        d, th = float(kd[i]), float(kt[i])
        if not close(pe[i], d * area * qe, 1e-14, 0.0):
            ctx.violation("EAS.__call__", "pe-product", "numPEs != density * area * quantum efficiency", case)
            continue
        if th >= 0 and np.isfinite(ratio) and np.isfinite(th):
            if not close(cos[i], expected_cos(th, ratio), 1e-12, 1e-12):
                ctx.violation("EAS.__call__", "eff-angle-formula",
                              "cos(theta_eff) != cos(theta * max(1, sqrt(2 ln ratio))) for ratio > 2 / cos(theta) otherwise", case)
            elif th <= 180.0 / 1.2 and ratio <= 2 and float(cos[i]) > float(np.cos(np.radians(th))) + 1e-15:
                ctx.violation("EAS.__call__", "eff-angle-below-intrinsic", "effective angle smaller than the intrinsic angle", case)


def check_batch(ctx, tag, alt, kd, kt, area, qe, thr, pe, cos, asked):
    """the batch as a whole through the model's mask -> kernel sub-batch -> scatter pipeline: the recorded per-event kernel
    answers, in input order, are what the model's batch kernel returns"""
    order = sorted(asked)  # the batch kernel answers in input order (C10); the recorder saw execution order
    line = (f"easbatch {f2h(area)} {f2h(qe)} {f2h(thr)} {len(alt)} " + fh(alt) + f" {len(order)} "
            + " ".join(f"{f2h(kd[i])} {f2h(kt[i])}" for i in order))
    o = run_driver([line])[0]
    n = len(alt)
    m_in, mask = int(o[0]), o[1] if n else ""
    vals = [h2f(x) for x in o[2:]] if n else []
    code_mask = "".join("1" if i in set(order) else "0" for i in range(n))
    ctx.case((tag, "batch", n, len(order)))
    if m_in != len(order) or mask != code_mask:
        ctx.disagree("C08.batch_mask", {"stream": tag, "model_kernel_batch": m_in, "code_kernel_batch": len(order),
                                        "first_diff": next((i for i in range(n) if mask[i:i + 1] != code_mask[i]), None)})
        return
    bad = [i for i in range(n) if not (close(vals[2 * i], pe[i], 0.0, 0.0) and close(vals[2 * i + 1], cos[i], 1e-12, 1e-12))]
    if bad:
        i = bad[0]
        ctx.disagree("C08.batch_scatter", {"stream": tag, "event": i, "altDec": float(alt[i]), "model": vals[2 * i:2 * i + 2],
                                           "code": [float(pe[i]), float(cos[i])], "n_bad": len(bad)})


# --------------------------------------------------------------------------------------------------------- streams


def stub_stream(ctx, mods):
    """real EAS.__call__, recording stub in place of the kernel: structured + boundary + malformed"""
    dask, nss, Detector, cphotang, dg, EAS = mods
    rng = ctx.rng
    n = 20000 if ctx.thorough else 3000
    ncfg = 12 if ctx.thorough else 5
    one = np.float64(1.0)
    cfgs = [(2.5, 0.2, 10.0), (2.0, 0.25, 8.0), (1.0, 1.0, 1.0)]
    while len(cfgs) < ncfg:
        cfgs.append((float(10 ** rng.uniform(-1, 1.5)), float(rng.uniform(0.01, 1.0)), float(10 ** rng.uniform(-1, 2))))
    for ci, (area, qe, thr) in enumerate(cfgs):
        alt = rng.uniform(-5.0, 25.0, n)
        dens = 10 ** rng.uniform(-3, 5, n)
        theta = rng.uniform(0.05, 3.0, n)
        # boundary stream: altitude ties and their neighbours
        bvals = [0.0, -0.0, 20.0, float(np.nextafter(20.0, np.inf)), float(np.nextafter(20.0, 0.0)), -5e-324, 5e-324,
                 float(np.nextafter(0.0, -1.0)), -1e-300, 1e-300, 20.000000000000004, 19.999999999999996, -np.inf, np.inf,
                 1e308, -1e308]
        k = 0
        for b in bvals:
            alt[k] = b
            k += 1
        # ratio ties: numPEs / thr == 2 exactly, and the neighbours
        ties = 0
        for _ in range(60):
            d0 = 2.0 * thr / qe / area
            cand = [d0] + ulp_neighbours(d0, 4)
            exact = [d for d in cand if (d * area * qe) / thr == 2.0]
            if not exact:
                break
            d = exact[0]
            for dd in [d, float(np.nextafter(d, np.inf)), float(np.nextafter(d, 0.0))]:
                alt[k] = float(rng.uniform(0.0, 20.0))
                dens[k] = dd
                theta[k] = float(rng.uniform(0.1, 2.0))
                k += 1
            ties += 1
            thr_ = thr  # same config; vary the angle only
        ctx.count("stub.ratio_tie_triples", ties)
        # zero / tiny / huge densities, zero angle
        for dd, tt in [(0.0, 1.0), (5e-324, 1.0), (1e300, 0.5), (1.0, 0.0), (3.0 * thr / qe / area, 0.0)]:
            alt[k], dens[k], theta[k] = 10.0, dd, tt
            k += 1
        nb = k
        cfg = make_cfg(nss, Detector, 525.0, area, qe, thr)
        eas = EAS(cfg)
        stub = StubKernel(dens, theta)
        eas.CphotAng = stub
        idx = np.arange(n, dtype=np.float64)
        beta = np.radians(rng.uniform(0.0, 42.0, n))
        E = 10 ** rng.uniform(-3, 2, n)
        alt0 = alt.copy()
        with quiet():
            pe, cos = eas(beta, alt, E, idx, np.zeros(n))
        if not np.array_equal(alt, alt0, equal_nan=True):
            ctx.violation("EAS.__call__", "mutates-input", "altDec array modified by the call", {})
        kd = np.where(np.isin(np.arange(n), stub.asked), dens, np.nan)
        kt = np.where(np.isin(np.arange(n), stub.asked), theta, np.nan)
        check_events(ctx, "stub", alt, kd, kt, area, qe, thr, pe, cos, stub.asked, ci, sample_every=n if ci else 1499)
        check_batch(ctx, "stub", alt, kd, kt, area, qe, thr, pe, cos, stub.asked)
        src_eas(ctx, beta, alt, E, idx, np.zeros(n), area, qe, thr, kd, kt, pe, cos)
        ctx.count("stub.boundary_cases", nb)
        # monotone in the signal (real code, same angle, increasing density)
        m = 400
        th0 = np.full(m, float(rng.uniform(0.3, 2.0)))
        dd = np.sort(10 ** rng.uniform(-2, 4, m))
        eas2 = EAS(cfg)
        eas2.CphotAng = StubKernel(dd, th0)
        with quiet():
            pe2, cos2 = eas2(beta[:m], np.full(m, 5.0), E[:m], np.arange(m, dtype=np.float64), np.zeros(m))
        bad = np.nonzero(np.diff(cos2) > 1e-15)[0]
        for j in bad[:3]:
            ctx.violation("EAS.__call__", "eff-angle-decreasing", "effective angle decreases when the signal increases",
                          {"theta": float(th0[0]), "dphots": [float(dd[j]), float(dd[j + 1])], "cos": [float(cos2[j]), float(cos2[j + 1])],
                           "area": area, "qe": qe, "thr": thr})
        ctx.case(n=m)
    # ---- malformed stream: threshold 0, negative density/angle, NaN altitude — model/code agreement only
    n2 = 300
    for (area, qe, thr) in [(2.5, 0.2, 0.0), (2.5, 0.2, -3.0), (2.5, 0.2, 10.0)]:
        alt = rng.uniform(-5.0, 25.0, n2)
        alt[:5] = np.nan
        dens = rng.normal(0, 100.0, n2)
        dens[5:8] = [np.nan, np.inf, 0.0]
        theta = rng.normal(0.0, 2.0, n2)
        cfg = make_cfg(nss, Detector, 525.0, area, qe, thr)
        eas = EAS(cfg)
        stub = StubKernel(dens, theta)
        eas.CphotAng = stub
        with quiet(), np.errstate(all="ignore"):
            pe, cos = eas(np.zeros(n2), alt, np.ones(n2), np.arange(n2, dtype=np.float64), np.zeros(n2))
        kd = np.where(np.isin(np.arange(n2), stub.asked), dens, np.nan)
        kt = np.where(np.isin(np.arange(n2), stub.asked), theta, np.nan)
        check_events(ctx, "malformed", alt, kd, kt, area, qe, thr, pe, cos, stub.asked, ("mal", thr), malformed=True)
        src_eas(ctx, np.zeros(n2), alt, np.ones(n2), np.arange(n2, dtype=np.float64), np.zeros(n2), area, qe, thr, kd, kt, pe, cos)
        # the 'never smaller than the intrinsic angle' clause holds even for negative angles / thresholds (final where)
        ctx.count("malformed.events", n2)


def real_events(ctx, n):
    rng = ctx.rng
    beta = np.radians(rng.uniform(0.0, 42.0, n))
    alt = rng.uniform(0.0, 20.0, n)
    E = 10 ** rng.uniform(-2.5, 1.5, n)
    beta[:3] = [0.0, np.radians(0.5), np.radians(42.0)]
    special = [0.0, -0.0, 20.0, float(np.nextafter(20.0, np.inf)), -5e-324, -3.0, 24.0, float(np.nextafter(20.0, 0.0)), 5e-324]
    for j, a in enumerate(special):
        alt[3 + j] = a
    return beta, alt, E


def run_real(mods, cfg, beta, alt, E):
    """real EAS.__call__ with the real kernel, synchronous scheduler; returns outputs, the kernel's per-event output
    (NaN where it was not asked) and the list of events it was asked for"""
    dask, nss, Detector, cphotang, dg, EAS = mods
    n = len(beta)
    eas = EAS(cfg)
    with RunRecorder(cphotang) as rec, dask.config.set(scheduler="synchronous"), quiet():
        pe, cos = eas(beta, alt, E, np.arange(n, dtype=np.float64), np.zeros(n))
    asked = [int(c[3]) for c in rec.calls]
    kd = np.full(n, np.nan)
    kt = np.full(n, np.nan)
    for c, o in zip(rec.calls, rec.outs):
        kd[int(c[3])], kt[int(c[3])] = o
        if c[1] < 0.0 or c[1] > 20.0:
            rec.bad = True
    return pe, cos, kd, kt, asked, rec.calls


def real_stream(ctx, mods):
    dask, nss, Detector, cphotang, dg, EAS = mods
    rng = ctx.rng
    n = 160 if ctx.thorough else 36
    beta, alt, E = real_events(ctx, n)
    base = dict(alt=np.float64(525.0), area=2.5, qe=0.2, thr=10.0)
    det2 = float(rng.uniform(30.0, 60.0))
    det3 = float(10 ** rng.uniform(2.0, 4.5))
    variants = {
        "base": {},
        "ref32": {"alt": np.float32(525.0)},
        "det_balloon": {"alt": 33.0},
        "det_low": {"alt": det2},
        "det_high": {"alt": np.float64(det3)},
        "area2": {"area": float(rng.uniform(0.5, 20.0))},
        "qe2": {"qe": float(rng.uniform(0.05, 1.0))},
        "thr2": {"thr": float(rng.uniform(0.5, 5.0))},
    }
    if ctx.thorough:
        for j in range(4):
            variants[f"det_r{j}"] = {"alt": float(10 ** rng.uniform(np.log10(25.0), 4.6))}
    runs = {}
    for name, delta in variants.items():
        p = {**base, **delta}
        cfg = make_cfg(nss, Detector, p["alt"], p["area"], p["qe"], p["thr"])
        pe, cos, kd, kt, asked, calls = run_real(mods, cfg, beta, alt, E)
        runs[name] = (p, pe, cos, kd, kt)
        check_events(ctx, "real", alt, kd, kt, p["area"], p["qe"], p["thr"], pe, cos, asked, name, sample_every=17 if name == "base" else 0)
        check_batch(ctx, "real", alt, kd, kt, p["area"], p["qe"], p["thr"], pe, cos, asked)
        src_eas(ctx, beta, alt, E, np.arange(n, dtype=np.float64), np.zeros(n), p["area"], p["qe"], p["thr"], kd, kt, pe, cos)
        ctx.count("real.kernel_calls", len(calls))
        ctx.traces += 1
    # ---- more events than one scheduler partition holds (the kernel is evaluated in partitions of 100): every event of a
    # 130-event batch, all of them in range so that the kernel batch really spans two partitions of different length, must still
    # get ITS OWN kernel output (the recorder identifies events by the latitude slot, not by position in the result)
    nb_ = 130
    beta_b = np.radians(rng.uniform(1.0, 42.0, nb_)); alt_b = rng.uniform(0.05, 19.5, nb_); E_b = 10 ** rng.uniform(-1.0, 1.0, nb_)
    cfg_b = make_cfg(nss, Detector, np.float64(525.0), 2.5, 0.2, 10.0)
    pe_b, cos_b, kd_b, kt_b, asked_b, calls_b = run_real(mods, cfg_b, beta_b, alt_b, E_b)
    check_events(ctx, "real_two_partitions", alt_b, kd_b, kt_b, 2.5, 0.2, 10.0, pe_b, cos_b, asked_b, "two_partitions")
    check_batch(ctx, "real_two_partitions", alt_b, kd_b, kt_b, 2.5, 0.2, 10.0, pe_b, cos_b, asked_b)
    ctx.count("real.kernel_calls", len(calls_b))
    # ---- what the calling program logs is inert: the same batch with DEBUG logging switched on (in-process kernel, so the
    # library's loggers see the level), at the reference orbit and at two other detector altitudes
    import logmode
    for name in ("base", "det_balloon", "det_high"):
        p = {**base, **variants[name]}
        cfg_l = make_cfg(nss, Detector, p["alt"], p["area"], p["qe"], p["thr"])
        k_l = min(n, 14)

        def call_logged(cfg_l=cfg_l, k_l=k_l):
            pe_, cos_, kd_, kt_, _asked, _calls = run_real(mods, cfg_l, beta[:k_l].copy(), alt[:k_l].copy(), E[:k_l].copy())
            return pe_, cos_, kd_, kt_
        logmode.check(ctx, "EAS.__call__", call_logged, {"variant": name, "detector_altitude_km": float(p["alt"]), "events": k_l,
                                                          "beta": beta[:k_l].tolist(), "altDec": alt[:k_l].tolist(), "E_100PeV": E[:k_l].tolist()})
    # ---- a batch whose events are ALL out of range: the real kernel must not simulate anything
    m = 12
    alt_out = np.where(np.arange(m) % 2 == 0, rng.uniform(-10.0, -1e-9, m), rng.uniform(20.000001, 500.0, m))
    cfg = make_cfg(nss, Detector, np.float64(525.0), 2.5, 0.2, 10.0)
    try:
        pe, cos, kd, kt, asked, calls = run_real(mods, cfg, beta[:m], alt_out, E[:m])
        check_events(ctx, "real_all_out", alt_out, kd, kt, 2.5, 0.2, 10.0, pe, cos, asked, "allout")
        check_batch(ctx, "real_all_out", alt_out, kd, kt, 2.5, 0.2, 10.0, pe, cos, asked)
    except Exception as e:  # noqa: BLE001
        ctx.violation("EAS.__call__", "all-out-of-range-batch-raises", f"a batch with no in-range event raises {type(e).__name__}: {e}",
                      {"altDec": alt_out.tolist()})
    # ---- … and so when the batch is a single event (out of range on either side, at the closed ends, in range), at two detector
    # altitudes: the window rule and the product rule hold whatever the batch size
    for a1 in (-0.5, float(np.nextafter(20.0, np.inf)), 25.0, 0.0, 20.0, 7.3):
        for det1 in (np.float64(525.0), 33.0):
            cfg1 = make_cfg(nss, Detector, det1, 2.5, 0.2, 10.0)
            b1, al1, e1 = np.array([np.radians(12.0)]), np.array([a1]), np.array([1.0])
            try:
                pe, cos, kd, kt, asked, calls = run_real(mods, cfg1, b1, al1, e1)
                check_events(ctx, "real_single_event", al1, kd, kt, 2.5, 0.2, 10.0, pe, cos, asked, f"single@{float(det1):g}")
                ctx.count("real.single_event_batches")
            except Exception as e:  # noqa: BLE001
                ctx.violation("EAS.__call__", "single-event-batch-raises", f"a batch of one event raises {type(e).__name__}: {e}",
                              {"altDec": [a1], "detector_altitude_km": float(det1)})
    # ---- the decay altitudes given as whole kilometres in an integer type (an altitude scan built with np.arange): the same
    # numbers must give the same signal as their float64 copies (the output type may not be inherited from this input)
    grid = np.array([0, 2, 4, 6, 9, 12, 15, 18, 20, 22, 3, 7])
    mg = len(grid)
    cfg = make_cfg(nss, Detector, np.float64(525.0), 2.5, 0.2, 10.0)
    try:
        ref_pe, ref_cos, *_ = run_real(mods, cfg, beta[:mg], grid.astype(np.float64), E[:mg])
        for nm, g_ in (("int64", grid.astype(np.int64)), ("int32", grid.astype(np.int32)), ("float32", grid.astype(np.float32))):
            ctx.case(("alt-dtype", nm), None)
            ctx.count("altitude_dtype_" + nm)
            pe_i, cos_i, *_ = run_real(mods, cfg, beta[:mg], g_, E[:mg])
            pe_i, cos_i = np.asarray(pe_i, dtype=np.float64), np.asarray(cos_i, dtype=np.float64)
            if not (np.allclose(pe_i, ref_pe, rtol=1e-6, atol=0) and np.allclose(cos_i, ref_cos, rtol=1e-9, atol=0)):
                k_ = int(np.argmax(np.abs(pe_i - ref_pe) / np.maximum(np.abs(ref_pe), 1e-300) + np.abs(cos_i - ref_cos)))
                ctx.violation("EAS.__call__", "depends-on-the-dtype-of-the-altitudes",
                              f"decay altitudes given as {nm} holding the same whole numbers give another signal than their float64 copies",
                              {"dtype": nm, "altDec": float(grid[k_]), "beta": float(beta[k_]), "showerEnergy": float(E[k_]),
                               "numPEs_float64": float(ref_pe[k_]), "numPEs_other": float(pe_i[k_]), "cos_float64": float(ref_cos[k_]), "cos_other": float(cos_i[k_])})
                break
    except Exception as e:  # noqa: BLE001
        ctx.violation("EAS.__call__", "integer-altitudes-raise", f"{type(e).__name__}: {str(e)[:120]}", {"altDec": grid.tolist()})
    # ---- one EAS object while the optical detector is reconfigured (a detector study re-using the object): the area, quantum
    # efficiency and threshold in force are the ones configured when the call is made
    cfg_r = make_cfg(nss, Detector, np.float64(525.0), 2.5, 0.2, 10.0)
    eas_r = EAS(cfg_r)
    kk_ = 8
    try:
        with dask.config.set(scheduler="synchronous"), quiet():
            pe_a, cos_a = eas_r(beta[:kk_], np.clip(alt[:kk_], 0.5, 15.0), E[:kk_], np.zeros(kk_), np.zeros(kk_))
            cfg_r.detector.optical.quantum_efficiency = 0.4
            cfg_r.detector.optical.telescope_effective_area = 5.0
            pe_b, cos_b = eas_r(beta[:kk_], np.clip(alt[:kk_], 0.5, 15.0), E[:kk_], np.zeros(kk_), np.zeros(kk_))
            pe_f, cos_f = EAS(cfg_r)(beta[:kk_], np.clip(alt[:kk_], 0.5, 15.0), E[:kk_], np.zeros(kk_), np.zeros(kk_))
        ctx.case(("reconfigured",), None); ctx.count("reconfigured_eas_calls")
        if not (np.allclose(pe_b, pe_f, rtol=1e-12, atol=0) and np.allclose(cos_b, cos_f, rtol=1e-12, atol=0)):
            k_ = int(np.argmax(np.abs(np.asarray(pe_b) - np.asarray(pe_f))))
            ctx.violation("EAS.__call__", "pe-product-after-reconfiguration",
                          "an EAS object re-used after the optical detector was reconfigured does not give numPEs = density x area x quantum efficiency of the configuration now in force",
                          {"quantum_efficiency": [0.2, 0.4], "telescope_effective_area": [2.5, 5.0], "numPEs_before": float(pe_a[k_]), "numPEs_reused_object": float(pe_b[k_]),
                           "numPEs_fresh_object": float(pe_f[k_]), "beta": float(beta[k_]), "showerEnergy": float(E[k_])})
    except Exception as e:  # noqa: BLE001
        ctx.notes.append(f"reconfiguration probe raised {type(e).__name__}: {str(e)[:80]}")
    # ---- metamorphic relations between the paired runs (REAL code only)
    p0, pe0, cos0, kd0, kt0 = runs["base"]
    inr = ~((alt < 0.0) | (alt > 20.0))
    Re = 6378.14013671875
    for name, (p, pe, cos, kd, kt) in runs.items():
        if name == "base":
            continue
        for i in np.nonzero(inr)[0]:
            case = {"variant": name, "config": {k: float(v) for k, v in p.items()}, "base": {k: float(v) for k, v in p0.items()},
                    "beta": float(beta[i]), "altDec": float(alt[i]), "showerEnergy": float(E[i]),
                    "numPEs": [float(pe0[i]), float(pe[i])], "cos": [float(cos0[i]), float(cos[i])],
                    "kernel": [[float(kd0[i]), float(kt0[i])], [float(kd[i]), float(kt[i])]]}
            ctx.case(("pair", name, i))
            if kd[i] != kd[i] or kd0[i] != kd0[i]:
                continue  # the kernel was not asked in one of the runs: already reported by the per-event clauses
            if name == "area2":
                if not close(pe[i] * p0["area"], pe0[i] * p["area"], 1e-13, 0.0):
                    ctx.violation("EAS.__call__", "pe-not-linear-in-area", "numPEs is not proportional to the telescope area", case)
            elif name == "qe2":
                if not close(pe[i] * p0["qe"], pe0[i] * p["qe"], 1e-13, 0.0):
                    ctx.violation("EAS.__call__", "pe-not-linear-in-qe", "numPEs is not proportional to the quantum efficiency", case)
            elif name == "thr2":
                if pe[i] != pe0[i]:
                    ctx.violation("EAS.__call__", "pe-depends-on-threshold", "numPEs changes with the threshold", case)
                # lower threshold => larger ratio => cone not narrower
                lo, hi = (cos[i], cos0[i]) if p["thr"] < p0["thr"] else (cos0[i], cos[i])
                if lo > hi + 1e-15:
                    ctx.violation("EAS.__call__", "eff-angle-decreasing", "a lower threshold (larger ratio) narrows the effective cone", case)
                # explicit relation between the two thresholds through the (recorded) intrinsic angle
                for c_, p_ in ((cos[i], p), (cos0[i], p0)):
                    if not close(c_, expected_cos(float(kt[i]), float(pe[i]) / p_["thr"]), 1e-12, 1e-12):
                        ctx.violation("EAS.__call__", "eff-angle-formula", "cos(theta_eff) does not follow the threshold relation", case)
            else:
                # another detector altitude: angle identical, density ratio = squared distance ratio
                if kt[i] != kt0[i]:
                    ctx.violation("CphotAng.run", "angle-depends-on-detector-altitude", "Cherenkov angle differs between two detector altitudes", case)
                if kd0[i] == 0.0 or not np.isfinite(kd0[i]):
                    ctx.count("real.zero_density_pairs")
                    if kd[i] != kd0[i]:
                        ctx.violation("CphotAng.run", "inverse-square", "zero/non-finite density at one altitude only", case)
                    continue
                bc = float(np.float32(np.radians(np.float32(1)) if beta[i] < np.radians(1.0) else beta[i]))
                d_ref = chord(bc, float(alt[i]), 525.0, Re)
                d_a = chord(bc, float(alt[i]), float(p["alt"]), Re)
                d_b = chord(bc, float(alt[i]), float(p0["alt"]), Re)
                expect = (d_b / d_a) ** 2
                tol = 2e-6 + 3e-6 * Re * (1.0 / abs(d_a) + 1.0 / abs(d_b) + 2.0 / abs(d_ref))
                got = kd[i] / kd0[i]
                case.update({"expected_ratio": expect, "got_ratio": float(got), "tol": tol, "distances_km": [d_b, d_a]})
                ctx.extra["max_inverse_square_rel_err_over_tol"] = max(ctx.extra.get("max_inverse_square_rel_err_over_tol", 0.0),
                                                                      abs(got / expect - 1.0) / tol)
                if not abs(got / expect - 1.0) <= tol:
                    ctx.violation("CphotAng.run", "inverse-square", "density ratio between two detector altitudes is not the squared distance ratio", case)
                # and PE follows the density (same area, qe)
                if not close(pe[i] * kd0[i], pe0[i] * kd[i], 1e-13, 0.0):
                    ctx.violation("EAS.__call__", "pe-product", "PE ratio differs from the density ratio", case)
    # ---- exact ratio ties with the REAL kernel: threshold := PE/2 of one event, and its neighbours
    cand = [i for i in np.nonzero(inr)[0] if pe0[i] > 1e-3 and np.isfinite(pe0[i])][: (12 if ctx.thorough else 4)]
    for i in cand:
        t = float(pe0[i]) / 2.0
        for thr in (t, float(np.nextafter(t, np.inf)), float(np.nextafter(t, 0.0))):
            cfg = make_cfg(nss, Detector, np.float64(525.0), 2.5, 0.2, thr)
            sl = slice(i, i + 1)
            pe, cos, kd, kt, asked, calls = run_real(mods, cfg, beta[sl], alt[sl], E[sl])
            check_events(ctx, "real_tie", alt[sl], kd, kt, 2.5, 0.2, thr, pe, cos, asked, ("tie", i))
            ctx.count("real.kernel_calls", len(calls))
    # ---- the altitude-scaling tail of CphotAng.run vs the model (kernel output for the 525 km reference -> detector)
    ref = cphotang.CphotAng(np.float32(525.0))
    lines, meta = [], []
    dets = [33.0, det2, det3, 400.0, 1000.0]
    for i in np.nonzero(inr)[0][: (40 if ctx.thorough else 10)]:
        b64, a64, e64 = np.float64(beta[i]), np.float64(alt[i]), np.float64(E[i])
        with np.errstate(all="ignore"):
            r0 = ref.run(b64, a64, e64, np.float64(0.0), np.float64(0.0))
        bc = float(np.float32(np.radians(np.float32(1)) if beta[i] < np.radians(1.0) else beta[i]))
        for det in dets:
            k = cphotang.CphotAng(np.float64(det))
            with np.errstate(all="ignore"):
                r1 = k.run(b64, a64, e64, np.float64(0.0), np.float64(0.0))
            lines.append(f"altscale {f2h(r0[0])} {f2h(r0[1])} {f2h(bc)} {f2h(a64)} {f2h(det)}")
            meta.append((i, det, r0, r1, bc))
            ctx.count("real.kernel_calls", 1)
    # the head and tail of CphotAng.run as translated from the source, next to the kernel run in binary64 (guarded hook)
    import cphot_srctie
    cphot_srctie.run_head_tail(ctx, "C08", [(float(beta[i]), float(alt[i]), float(E[i])) for i in np.nonzero(inr)[0][: (24 if ctx.thorough else 8)]],
                               dets, head=False)
    for (i, det, r0, r1, bc), o in zip(meta, run_driver(lines)):
        dm, am = h2f(o[0]), h2f(o[1])
        d_a = chord(bc, float(alt[i]), det, Re)
        d_ref = chord(bc, float(alt[i]), 525.0, Re)
        tol = 2e-6 + 3e-6 * Re * (1.0 / abs(d_a) + 2.0 / abs(d_ref))
        ctx.case(("altscale", i, det), {"op": "CphotAng.run tail", "beta": float(beta[i]), "altDec": float(alt[i]), "detector_altitude": det,
                                        "ref(525km)": [float(r0[0]), float(r0[1])], "code": [float(r1[0]), float(r1[1])], "model": [dm, am]}
                 if det == 33.0 and i % 7 == 0 else None)
        if not (close(dm, r1[0], tol, 0.0) and am == float(r1[1])):
            ctx.disagree("C08.altitude_scaling", {"beta": float(beta[i]), "altDec": float(alt[i]), "det": det,
                                                  "code": [float(r1[0]), float(r1[1])], "model": [dm, am], "tol": tol})


def distance_stream(ctx, mods):
    """distance_to_detector (float64) vs model and vs explicit vector geometry"""
    dask, nss, Detector, cphotang, dg, EAS = mods
    rng = ctx.rng
    n = 20000 if ctx.thorough else 2000
    beta = np.radians(rng.uniform(0.0, 60.0, n))
    z = rng.uniform(0.0, 20.0, n)
    zd = 10 ** rng.uniform(np.log10(21.0), 4.6, n)
    Re = np.full(n, 6378.14013671875)
    Re[n // 2:] = 6378.1
    beta[:4] = [0.0, np.radians(1.0), np.radians(42.0), 0.0]
    z[:4] = [0.0, 20.0, 0.0, 20.0]
    zd[:4] = [525.0, 525.0, 33.0, 21.0]
    with warnings.catch_warnings():
        warnings.simplefilter("ignore")
        d = dg.distance_to_detector(beta, z, zd, Re)
    out = run_driver_sharded([f"dist {f2h(beta[i])} {f2h(z[i])} {f2h(zd[i])} {f2h(Re[i])}" for i in range(n)])
    # the three geometry functions as translated from the source: same doubles in, cos/arcsin/arccos/sin to an ulp; the
    # distance takes the sine of a difference of angles of size ~1 (absolute error ~1e-16 R, as for the model above)
    import srctie
    from nuspacesim.simulation.eas_optical.shower_properties import propagation_angle
    sx = slice(0, 4000)
    srctie.compare(ctx, "C08", "distanceToDetector", [beta[sx], z[sx], zd[sx], Re[sx]], [d[sx]], rtol=1e-9, atol=1e-12 * (6378.2 + 40000.0))
    srctie.compare(ctx, "C08", "viewingAngle", [beta[sx], zd[sx], Re[sx]], [dg.viewing_angle(beta, zd, Re)[sx]], rtol=1e-13, atol=1e-15)
    srctie.compare(ctx, "C08", "propagationAngle", [beta[sx], z[sx], Re[sx]], [propagation_angle(beta, z, Re)[sx]], rtol=1e-12, atol=1e-13)
    for i, o in enumerate(out):
        dm = h2f(o[0])
        ref = chord(float(beta[i]), float(z[i]), float(zd[i]), float(Re[i]))
        # conditioning: the formula takes sin of a difference of angles of size ~1; absolute error ~1e-16*R
        tol = 1e-9 * abs(ref) + 1e-12 * (Re[i] + zd[i])
        ctx.case(("dist", i), {"op": "distance_to_detector", "beta": float(beta[i]), "z": float(z[i]), "z_det": float(zd[i]),
                               "Re": float(Re[i]), "code": float(d[i]), "model": dm, "vector_geometry": ref} if i in (0, 5) else None)
        if not abs(dm - d[i]) <= tol:
            ctx.disagree("C08.distance_to_detector", {"beta": float(beta[i]), "z": float(z[i]), "zd": float(zd[i]), "code": float(d[i]), "model": dm})
        if not abs(ref - d[i]) <= tol:
            ctx.violation("distance_to_detector", "not-line-of-sight-distance",
                          "distance_to_detector differs from the explicit distance between the two points on the line of sight",
                          {"beta": float(beta[i]), "z": float(z[i]), "z_det": float(zd[i]), "Re": float(Re[i]), "code": float(d[i]), "expected": ref})
    ctx.count("dist.cases", n)


def constants(ctx, mods):
    dask, nss, Detector, cphotang, dg, EAS = mods
    got = [h2f(x) for x in run_driver(["easconst"])[0]]
    k = cphotang.CphotAng(525.0)
    # the defaults (0 photons, 1.5 deg) are observed through an out-of-range event with area = qe = 1:
    # PE = default density exactly, cos = cos(radians(default angle))
    eas = EAS(make_cfg(nss, Detector, 525.0, 1.0, 1.0, 1.0))
    eas.CphotAng = StubKernel(np.zeros(1), np.zeros(1))
    with quiet():
        pe, cos = eas(np.zeros(1), np.full(1, 30.0), np.ones(1), np.zeros(1), np.zeros(1))
    src = [float(pe[0]), float(cos[0]), float(k.orbit_height), float(k.RadE)]
    got[1] = float(np.cos(np.radians(got[1])))
    for name, a, b in zip(["default_dphots", "cos(default_theta)", "orbit_height", "RadE"], got, src):
        ctx.case(("const", name), {"const": name, "model": a, "code": b} if name == "RadE" else None)
        if a != b:
            ctx.disagree("C08.constants", {"name": name, "model": a, "code": b})


def run(ctx: Ctx):
    mods = _mods()
    constants(ctx, mods)
    stub_stream(ctx, mods)
    distance_stream(ctx, mods)
    import libtie
    libtie.c08(ctx)
    real_stream(ctx, mods)


def search(ctx: Ctx):
    """Failing-input search: the oracle clauses already ran on the real code; widen the streams."""
    if ctx.tier != "thorough":
        ctx.tier = "thorough"
        run(ctx)


if __name__ == "__main__":
    sys.exit(main_for("C08", sys.modules[__name__]))
