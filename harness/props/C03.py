"""C03 — reported acceptance integrals follow from stored event columns and trigger rules.

(1) the real RegionGeom.mcintegral / RegionGeomToO.mcintegral on generated event arrays next to the Lean model
    (Model.Est at Float), with exact-tie streams for every comparison;
(2) the real nuspacesim.compute(config) on small configurations: every reported header value / column is recomputed by
    the Lean driver FROM THE RESULT TABLE'S COLUMNS (+ the configuration) only;
(3) property-level oracles on the real code's outputs (independent numpy/fsum evaluation of the documented estimator;
    metamorphic: permute, raise the threshold, compare with 0.826·geo, switch channel).
"""
import contextlib
import io
import math
import sys
import warnings

import numpy as np

warnings.filterwarnings("ignore")
from common import *  # noqa

RULE = ("cases = one call of the real RegionGeom.mcintegral (object built by the real throw(u)) or RegionGeomToO.mcintegral "
        "(object built by a real throw(N), masks/path lengths/dark mask then set to generated arrays) on generated per-event "
        "arrays, or one header value / column of a real compute(config) run recomputed from the result table; streams: "
        "structured, boundary (exact ties trigger == threshold, cos(sep) == cos(theta_eff), L == l_dec; N in {1,2}; scalar "
        "cosine), malformed (wrong array length, unknown method, NaN trigger: error kind / model agreement only); a case is "
        "non-trivial when at least one event passes and at least one fails a cut; key = (site, config id, stream, size, #pass); "
        "configured-limits stream: RegionGeomToO.mcintegral with the real dark-sky cut of an object built from a configuration whose "
        "sun / moon limits, switch and threshold sit at 0, -0.0, False, +-5e-324 or a spelling of them (and at generic values), and "
        "compute() on such configurations with the source placed so that events happen while the value of the limit decides; "
        "non-trivial when dark and bright instants both occur and the focused limit decides at least one instant")
ASSUMPTIONS = [
    "sums are compared to 1e-10 relative (numpy sums pairwise, the model left to right); counts and the target-mode "
    "per-event columns are compared exactly / to 1e-12",
    "in the end-to-end recomputation the radio trigger is the real calculate_snr applied to the table's EFields column, "
    "spec_norm and spec_weights_sum are the real spectra helpers applied to the configuration (both are functions of the "
    "configuration only), and the target-mode dark flags are the real ToOEvent.sun_moon_cut applied to the table's `times` column, "
    "checked against (and, where they differ away from exact ties, replaced by) the dark-sky rule evaluated from the configured "
    "limits detector.sun_moon.* with Sun / Moon positions taken from astropy directly",
    "property quantifier: finite triggers, cosines in [-1,1], p_exit in (0,1], decay lengths >= 0; NaN triggers are only "
    "compared model-vs-code (a NaN trigger passes `triggers < threshold` in both)",
]

BSHR = 0.826


def regen():
    """Props/C03.lean bridges the two estimators (Gen/Src/C03) and mcnorm of the constructor (Gen/Src/C01)"""
    import srctie
    out = srctie.regen("C03")
    out.update(srctie.regen("C01"))
    return out


SRC_REDUCERS = [np.sum, np.sum, lambda x: np.var(x, ddof=1), np.count_nonzero]


def fsum(x):
    return math.fsum(float(v) for v in np.asarray(x, dtype=np.float64).ravel())


def relclose(a, b, rtol=1e-10, atol=0.0):
    a = float(a)
    b = float(b)
    if np.isnan(a) or np.isnan(b):
        return bool(np.isnan(a) and np.isnan(b))
    if np.isinf(a) or np.isinf(b):
        return a == b
    return abs(a - b) <= rtol * max(abs(a), abs(b)) + atol


@contextlib.contextmanager
def quiet():
    buf = io.StringIO()
    with contextlib.redirect_stdout(buf), contextlib.redirect_stderr(buf):
        yield


# --------------------------------------------------------------------------- oracles (independent evaluation)


def oracle_diffuse(w, cossep, coseff, trig, thr, p, sn, ss, mcnorm, nthrown):
    """Documented estimator, evaluated independently (exact summation) from per-event columns."""
    coseff = np.broadcast_to(np.asarray(coseff, dtype=np.float64), w.shape)
    in_cone = cossep >= coseff
    passes = in_cone & (trig >= thr)
    contrib = np.where(passes, w * BSHR * p / (sn * ss), 0.0)
    geo = fsum(np.where(in_cone, w, 0.0)) * mcnorm / nthrown
    return fsum(contrib) * mcnorm / nthrown, geo, int(np.count_nonzero(contrib)), contrib


def oracle_target(L, ldec, coseff, trig, thr, p, sn, ss, ntimes, dark, cut_on, method):
    coseff = np.broadcast_to(np.asarray(coseff, dtype=np.float64), L.shape)
    tan2 = (1.0 - coseff**2) / coseff**2
    d = L - ldec
    area = np.where(d > 0, d * d * tan2 * np.pi, 0.0)
    passes = (trig >= thr) & (d > 0)
    if cut_on and method == "Optical":
        passes = passes & dark
    contrib = np.where(passes, area * BSHR * p / (sn * ss), 0.0)
    return fsum(contrib) / ntimes, fsum(area) / ntimes, int(np.count_nonzero(contrib)), contrib


# --------------------------------------------------------------------------- driver calls


def drv_diffuse(thr, sn, ss, mcnorm, nthrown, cols):
    """cols: (k,6) array cTrN cNV cTrV trig cEff pexit"""
    k = cols.shape[0]
    return f"c03d {f2h(thr)} {f2h(sn)} {f2h(ss)} {f2h(mcnorm)} {f2h(nthrown)} {k} " + fh(cols)


def drv_dcols(alt, thr, sn, ss, mcnorm, nthrown, cols):
    k = cols.shape[0]
    return f"c03dcols {f2h(alt)} {f2h(thr)} {f2h(sn)} {f2h(ss)} {f2h(mcnorm)} {f2h(nthrown)} {k} " + fh(cols)


def drv_target(thr, sn, ss, ntimes, cut_on, method, cols):
    """cols: (k,6) array L lDec cosEff trig pexit dark(0/1)"""
    k = cols.shape[0]
    return (f"c03t {f2h(thr)} {f2h(sn)} {f2h(ss)} {f2h(ntimes)} {1 if cut_on else 0} {1 if method == 'Radio' else 0} {k} "
            + fh(cols))


def parse_out(tok):
    integral, geo, npass = h2f(tok[0]), h2f(tok[1]), int(tok[2])
    factors = np.array([h2f(t) for t in tok[3:]], dtype=np.float64)
    return integral, geo, npass, factors


# --------------------------------------------------------------------------- generators


def gen_inputs(rng, n, cossep, stream, radio_cos=None):
    """Per-event inputs of the diffuse estimator for n valid events; returns dict."""
    trig = np.exp(rng.normal(2.0, 1.5, n))
    thr = float(np.exp(rng.normal(2.0, 0.7)))
    p = rng.uniform(1e-6, 1.0, n)
    p[rng.random(n) < 0.05] = 1.0
    # effective cone cosine: near the separation cosine so that both outcomes occur
    coseff = np.clip(cossep + rng.normal(0.0, 2e-4, n), -1.0, 1.0)
    if stream == "boundary":
        # exact ties for both comparisons on a third of the events each, just-below / just-above neighbours on others
        idx = rng.permutation(n)
        a, b, c = idx[: n // 3], idx[n // 3: 2 * n // 3], idx[2 * n // 3:]
        thr = float(np.float64(rng.integers(1, 50)))
        trig[a] = thr
        trig[b[: len(b) // 2]] = np.nextafter(thr, -np.inf)
        trig[b[len(b) // 2:]] = np.nextafter(thr, np.inf)
        coseff[b] = cossep[b]
        coseff[c[: len(c) // 2]] = np.nextafter(cossep[c[: len(c) // 2]], 2.0)
        coseff[c[len(c) // 2:]] = np.nextafter(cossep[c[len(c) // 2:]], -2.0)
        coseff = np.clip(coseff, -1.0, 1.0)
    if radio_cos is not None:
        coseff = radio_cos
    if stream == "signed":
        # signal-to-noise ratios are signed; thresholds at and below zero are valid thresholds
        trig = rng.normal(0.5, 2.0, n)
        thr = float(rng.choice([0.0, -1.5, 0.25, -0.0]))
        if n:
            trig[: max(1, n // 6)] = thr
    elif stream == "counts":
        # whole-number signals (photo-electron counts, pass/fail flags)
        trig = np.floor(trig) if rng.random() < 0.7 else (trig > np.median(trig)).astype(np.float64)
        thr = float(rng.choice([1.0, 5.0, 0.5]))
    kind = rng.integers(0, 3)
    if kind == 0:
        sn, ss = 1.0, 1.0
    elif kind == 1:
        sn = float(np.exp(rng.normal(0, 3)))
        ss = 1.0 / sn
    else:
        sn, ss = float(np.exp(rng.normal(0, 3))), float(np.exp(rng.normal(0, 3)))
    return dict(trig=trig, thr=thr, p=p, coseff=coseff, sn=sn, ss=ss)


def diffuse_configs(rng, nss, count):
    alts = [5.0, 33.0, 525.0, 1000.0, 36000.0]
    out = []
    for i in range(count):
        cfg = nss.NssConfig()
        cfg.detector.initial_position.altitude = float(alts[i % len(alts)] if i < len(alts) else rng.uniform(1.0, 3000.0))
        cfg.simulation.angle_from_limb = float(np.radians(rng.choice([1.0, 7.0, 20.0]) if i else 7.0))
        cfg.simulation.max_cherenkov_angle = float(np.radians(rng.choice([0.5, 3.0, 30.0, 80.0]) if i else 3.0))
        cfg.simulation.max_azimuth_angle = float(np.radians(rng.choice([10.0, 360.0]) if i else 360.0))
        # the limb angle must stay below the horizon angle
        R = 6378.1
        ahor = np.pi / 2 - np.arccos(R / (R + cfg.detector.initial_position.altitude))
        if cfg.simulation.angle_from_limb >= ahor:
            cfg.simulation.angle_from_limb = float(0.5 * ahor)
        out.append(cfg)
    return out


# --------------------------------------------------------------------------- part 1a: RegionGeom.mcintegral


def check_diffuse_call(ctx, geom, cfgid, stream, ins, full_mask, lines, pend):
    """Call the real estimator; queue the model call; evaluate the oracle on the real outputs."""
    m = geom.event_mask
    k = int(m.sum())
    w3 = np.stack([geom.costhetaTrSubN[m], geom.costhetaNSubV[m], geom.costhetaTrSubV[m]], axis=1)
    trig, thr, p, coseff, sn, ss = ins["trig"], ins["thr"], ins["p"], ins["coseff"], ins["sn"], ins["ss"]
    trig0, p0 = trig.copy(), p.copy()
    ce0 = np.array(coseff, dtype=np.float64, copy=True)
    got = geom.mcintegral(trig, coseff, p, thr, sn, ss)
    # source tie: RegionGeom.mcintegral as translated from the source (reductions split) at Float next to the real call
    import srctie
    srctie.compare_split(ctx, "C03", "mcDiffuse",
                         [trig, np.broadcast_to(np.asarray(coseff, dtype=np.float64), (k,)), p, np.float64(thr), np.float64(sn), np.float64(ss),
                          w3[:, 0], w3[:, 1], w3[:, 2], np.ones(k, dtype=bool), np.float64(geom.mcnorm), np.float64(len(geom.betaTrSubN))],
                         SRC_REDUCERS, [got[0], got[1], got[2], got[3]], rtol=1e-12)
    if not (np.array_equal(trig, trig0, equal_nan=True) and np.array_equal(p, p0)
            and np.array_equal(np.asarray(coseff, dtype=np.float64), ce0)):
        ctx.violation("RegionGeom.mcintegral", "mutates-input", "an input array was modified", {"cfg": cfgid})
    nthrown = len(geom.betaTrSubN)
    ce_arr = np.broadcast_to(np.asarray(coseff, dtype=np.float64), (k,))
    cols = np.column_stack([w3, trig, ce_arr, p]) if k else np.zeros((0, 6))
    lines.append(drv_diffuse(thr, sn, ss, geom.mcnorm, nthrown, cols))
    case = {"cfg": cfgid, "stream": stream, "n_thrown": nthrown, "n_valid": k, "threshold": thr, "spec_norm": sn,
            "spec_sum": ss, "integral": float(got[0]), "geo": float(got[1]), "npass": int(got[2])}
    pend.append((got, case))
    if not np.isfinite(trig).all():
        return got
    # ---- property-level oracle on the REAL outputs
    w = w3[:, 0] / w3[:, 1] / w3[:, 2]
    o_int, o_geo, o_n, contrib = oracle_diffuse(w, w3[:, 2], coseff, trig, thr, p, sn, ss, geom.mcnorm, nthrown)
    site = "RegionGeom.mcintegral"
    big = dict(case, inputs={"u_seed": ctx.seed})
    if not relclose(got[0], o_int, 1e-9, 1e-300):
        cls = "integral-formula"
        if k and k != nthrown and relclose(got[0] * nthrown / k, o_int, 1e-9):
            cls = "divided-by-surviving"
        ctx.violation(site, cls, f"integral {float(got[0])!r} != documented estimator {o_int!r}", big)
    if not relclose(got[1], o_geo, 1e-9, 1e-300):
        ctx.violation(site, "geo-formula", f"geo-only integral {float(got[1])!r} != {o_geo!r}", big)
    if int(got[2]) != o_n:
        ctx.violation(site, "npass", f"passing count {int(got[2])} != {o_n}", big)
    if abs(sn * ss - 1.0) < 1e-12 and (w >= 0).all() and got[0] > BSHR * got[1] * (1 + 1e-9):
        ctx.violation(site, "exceeds-0.826-geo", "integral above 0.826 x geometric integral", big)
    if stream == "counts" and k:
        # the same whole numbers in an integer (or Boolean) array: the three returned values may not depend on the type
        forms = [("int64", trig.astype(np.int64)), ("int32", trig.astype(np.int32))]
        if set(np.unique(trig)) <= {0.0, 1.0}:
            forms.append(("bool", trig.astype(bool)))
        for nm, t_ in forms:
            g2 = geom.mcintegral(t_, coseff, p, thr, sn, ss)
            ctx.count("diffuse_trigger_dtype_" + nm)
            if not (relclose(g2[0], got[0], 1e-12, 1e-300) and relclose(g2[1], got[1], 1e-12, 1e-300) and int(g2[2]) == int(got[2])):
                ctx.violation(site, "depends-on-the-dtype-of-the-trigger-values",
                              f"trigger values given as {nm} holding the same whole numbers give ({float(g2[0])!r}, {float(g2[1])!r}, {int(g2[2])}) instead of ({float(got[0])!r}, {float(got[1])!r}, {int(got[2])})",
                              dict(big, dtype=nm))
                break
    ctx.case((site, cfgid, stream, k, o_n) if 0 < o_n < k else None,
             dict(case, op=site) if len(ctx.samples) < 2 else None)
    ctx.count(f"diffuse_{stream}")
    ctx.count("diffuse_ties_trigger", int(np.sum(trig == thr)))
    ctx.count("diffuse_ties_cone", int(np.sum(w3[:, 2] == ce_arr)))
    return got


def part_diffuse(ctx, nss, RegionGeom):
    rng = ctx.rng
    ncfg = 14 if ctx.thorough else 6
    reps = 60 if ctx.thorough else 8
    lines, pend = [], []
    for ci, cfg in enumerate(diffuse_configs(rng, nss, ncfg)):
        geom = RegionGeom(cfg)
        # mcnorm: model from the configuration vs the object
        o = run_driver([f"c03norm {f2h(cfg.detector.initial_position.altitude)} {f2h(cfg.simulation.angle_from_limb)} "
                        f"{f2h(cfg.simulation.max_cherenkov_angle)} {f2h(cfg.simulation.max_azimuth_angle)}"])[0]
        ctx.case(("mcnorm", ci))
        if not relclose(h2f(o[0]), geom.mcnorm, 1e-11):
            ctx.disagree("C03.mcnorm", {"cfg": ci, "model": h2f(o[0]), "code": float(geom.mcnorm)})
        # source tie: mcnorm of RegionGeom.__init__ as translated from the source (Gen/Src/C01.lean `init`, output 8)
        import srctie
        ip = cfg.detector.initial_position
        srctie.compare(ctx, "C01", "init", [np.array([float(x)]) for x in (ip.altitude, cfg.simulation.angle_from_limb, cfg.simulation.max_cherenkov_angle,
                                                                          cfg.simulation.max_azimuth_angle, geom.detLat, geom.detLong)],
                       [None] * 8 + [np.array([float(geom.mcnorm)])] + [None] * 9, rtol=1e-9)
        for rep in range(reps):
            stream = ("structured", "boundary", "structured", "signed", "boundary", "counts")[rep % 6]
            n = int(rng.choice([1, 2, 3, 17, 64, 300])) if rep >= 2 else (300 if ctx.thorough else 120)
            u = rng.random((4, n))
            if rep == reps - 1:
                # a cone so wide / azimuth such that many thrown events are invalid is configuration dependent; force some
                # invalid ones by throwing twice as many and keeping the object as is (invalid = masked by the code itself)
                u = rng.random((4, 2 * n))
            with np.errstate(all="ignore"):
                geom.throw(u)
            m = geom.event_mask
            k = int(m.sum())
            ctx.count("diffuse_thrown", u.shape[1])
            ctx.count("diffuse_valid", k)
            # one effective cosine for the whole batch (what the radio channel passes), given as a Python float, a numpy scalar or a
            # 0-d array: the thrown cone itself and narrower cones inside it - the cone rule holds whatever the container
            radio_cos = None
            if rep % 3 == 2:
                c_ = float(np.cos(cfg.simulation.max_cherenkov_angle * float(rng.choice([1.0, 1.0, 0.75, 0.5, 0.25]))))
                radio_cos = (c_, np.float64(c_), np.array(c_))[(rep // 3) % 3]
                ctx.count("diffuse_scalar_cosine_" + ("float", "numpy_scalar", "zero_d_array")[(rep // 3) % 3])
            ins = gen_inputs(rng, k, geom.costhetaTrSubV[m], stream, radio_cos)
            with np.errstate(all="ignore"):
                got = check_diffuse_call(ctx, geom, ci, stream, ins, m, lines, pend)
                # ---- metamorphic on the real code
                site = "RegionGeom.mcintegral"
                if k >= 1:
                    # (a) reorder the thrown events (and every per-event input with them)
                    perm = rng.permutation(u.shape[1])
                    full = {}
                    for name in ("trig", "p", "coseff"):
                        v = ins[name]
                        if np.ndim(v) == 0:
                            full[name] = v
                        else:
                            f_ = np.zeros(u.shape[1])
                            f_[m] = v
                            full[name] = f_
                    geom.throw(u[:, perm])
                    m2 = geom.event_mask
                    if not np.array_equal(m2, m[perm]):
                        ctx.count("perm_mask_changed")  # rounding cannot depend on position; counted if it ever does
                    else:
                        sel = lambda v: v if np.ndim(v) == 0 else v[perm][m2]  # noqa: E731
                        got2 = geom.mcintegral(sel(full["trig"]), sel(full["coseff"]), sel(full["p"]), ins["thr"], ins["sn"], ins["ss"])
                        ctx.case(n=1)
                        if not (relclose(got2[0], got[0], 1e-10) and relclose(got2[1], got[1], 1e-10) and got2[2] == got[2]):
                            ctx.violation(site, "not-permutation-invariant", "reordering the events changes the result",
                                          {"cfg": ci, "before": [float(got[0]), float(got[1]), int(got[2])],
                                           "after": [float(got2[0]), float(got2[1]), int(got2[2])]})
                    geom.throw(u)
                    # (b) raise the threshold
                    f_ = float(rng.choice([1.0 + 1e-12, 1.5, 10.0]))
                    thr2 = ins["thr"] * f_ if ins["thr"] > 0 else ins["thr"] + abs(ins["thr"]) * (f_ - 1.0) + (f_ - 1.0)   # a HIGHER threshold, whatever its sign
                    got3 = geom.mcintegral(ins["trig"], ins["coseff"], ins["p"], thr2, ins["sn"], ins["ss"])
                    ctx.case(n=1)
                    wv = geom.costhetaTrSubN[m] / geom.costhetaNSubV[m] / geom.costhetaTrSubV[m]
                    if (wv >= 0).all() and (got3[0] > got[0] * (1 + 1e-12) or got3[2] > got[2]):
                        ctx.violation(site, "not-antitone-in-threshold", "raising the threshold increases the integral or count",
                                      {"cfg": ci, "thr": ins["thr"], "thr2": thr2, "before": float(got[0]), "after": float(got3[0])})
                    # (c) the geometry-only part does not depend on trigger, threshold, p_exit or spectrum factors
                    if not relclose(got3[1], got[1], 0.0):
                        ctx.violation(site, "geo-depends-on-threshold", "geo-only integral changed with the threshold", {"cfg": ci})
    out = run_driver(lines)
    for tok, (got, case) in zip(out, pend):
        mi, mg, mn, _ = parse_out(tok)
        if not (relclose(mi, got[0], 1e-10, 1e-300) and relclose(mg, got[1], 1e-10, 1e-300) and mn == int(got[2])):
            ctx.disagree("C03.mcintegral_diffuse", dict(case, model=[mi, mg, mn]))
    ctx.traces += len(pend)
    # ---- malformed stream (error kinds; model agreement for NaN trigger)
    cfg = nss.NssConfig()
    geom = RegionGeom(cfg)
    geom.throw(rng.random((4, 50)))
    k = int(geom.event_mask.sum())
    for name, args in (("short-trigger", (np.ones(max(k - 1, 0)), 0.99, np.ones(k), 1.0, 1.0, 1.0)),
                       ("short-pexit", (np.ones(k), 0.99, np.ones(k + 1), 1.0, 1.0, 1.0))):
        try:
            geom.mcintegral(*args)
            ctx.count(f"malformed_{name}:no-error")
        except Exception as e:  # noqa: BLE001
            ctx.count(f"malformed_{name}:{type(e).__name__}")
        ctx.case(n=1)
    m = geom.event_mask
    ins = gen_inputs(rng, k, geom.costhetaTrSubV[m], "structured")
    ins["trig"][:: 5] = np.nan
    lines, pend = [], []
    with np.errstate(all="ignore"):
        check_diffuse_call(ctx, geom, "nan", "malformed", ins, m, lines, pend)
    tok = run_driver(lines)[0]
    mi, mg, mn, _ = parse_out(tok)
    got = pend[0][0]
    if not (relclose(mi, got[0], 1e-10) and relclose(mg, got[1], 1e-10) and mn == int(got[2])):
        ctx.disagree("C03.mcintegral_diffuse_nan_trigger", dict(pend[0][1], model=[mi, mg, mn]))


# --------------------------------------------------------------------------- part 1b: RegionGeomToO.mcintegral


def target_config(nss, rng, i):
    cfg = nss.NssConfig()
    cfg.simulation.mode = "Target"
    cfg.detector.initial_position.altitude = float([525.0, 33.0, 1000.0][i % 3])
    cfg.simulation.target.source_RA = float(rng.uniform(0, 2 * np.pi))
    cfg.simulation.target.source_DEC = float(rng.uniform(-0.5, 0.5))
    cfg.simulation.target.source_obst = float(rng.choice([86400.0, 3600.0, 7200.0]))
    cfg.detector.sun_moon.sun_moon_cuts = bool(i % 2 == 0)
    return cfg


def part_target(ctx, nss, RegionGeomToO):
    rng = ctx.rng
    ncfg = 8 if ctx.thorough else 4
    reps = 150 if ctx.thorough else 20
    site = "RegionGeomToO.mcintegral"
    lines, pend = [], []
    for ci in range(ncfg):
        cfg = target_config(nss, rng, ci)
        geom = RegionGeomToO(cfg)
        for rep in range(reps):
            stream = ("structured", "boundary")[rep % 2]
            n = int(rng.choice([1, 2, 5, 40, 200]))
            geom.throw(n)  # the real throw (astropy) sets times & masks; the masks and path lengths are then generated
            times = geom.times
            hm = rng.random(n) < 0.7
            vm = rng.random(int(hm.sum())) < 0.7
            if rep == 0:
                hm[:] = True
                vm = np.ones(n, dtype=bool)
            k = int(vm.sum())
            geom.horizon_mask, geom.volume_mask = hm, vm
            L = rng.uniform(10.0, 3000.0, k)
            geom.losPathLen = L.copy()
            ldec = rng.exponential(50.0, k) * np.exp(rng.normal(0, 2, k))
            coseff = np.cos(np.radians(rng.uniform(0.2, 5.0, k)))
            trig = np.exp(rng.normal(2.0, 1.5, k))
            thr = float(np.exp(rng.normal(2.0, 0.7)))
            p = rng.uniform(1e-6, 1.0, k)
            dark = rng.random(k) < 0.5
            if stream == "boundary" and k:
                idx = rng.permutation(k)
                a, b = idx[: k // 2], idx[k // 2:]
                thr = float(np.float64(rng.integers(1, 50)))
                trig[a] = thr
                trig[b[::3]] = np.nextafter(thr, -np.inf)
                ldec[b] = L[b]  # L == l_dec exactly: nothing beyond the decay point
                ldec[a[::2]] = np.nextafter(L[a[::2]], -np.inf)
                ldec[a[1::4]] = np.nextafter(L[a[1::4]], np.inf)
                p[a[:2]] = 1.0
            method = ("Optical", "Radio")[int(rng.integers(0, 2))]
            if method == "Radio" and rep % 3 == 0:
                coseff_arg = float(np.cos(cfg.simulation.max_cherenkov_angle))
            else:
                coseff_arg = coseff
            sn = float(np.exp(rng.normal(0, 2))) if rep % 4 == 3 else 1.0
            ss = 1.0 / sn if rep % 8 != 7 else float(np.exp(rng.normal(0, 2)))
            seen = {}

            def stub(t, dark=dark, seen=seen):
                seen["times"] = t
                return dark.copy()

            geom.too_source.sun_moon_cut = stub
            stored = {}

            def store(names, cols, stored=stored):
                stored[names[0]] = np.array(cols[0], copy=True)

            with np.errstate(all="ignore"):
                # the channel name reaches the code as an EQUAL string that need not be the interned literal of the source (a value read
                # from a file, a numpy string, a concatenation): the channel is told by the value, never by the object
                method_arg = (method, "".join(list(method)), np.str_(method), (method + " ").strip(), method.encode().decode())[rep % 5]
                ctx.count(f"target_method_spelling_{rep % 5}")
                got = geom.mcintegral(trig, coseff_arg, p, thr, sn, ss, lenDec=ldec, method=method_arg, store=store)
            cut_on = bool(cfg.detector.sun_moon.sun_moon_cuts)
            ce_arr = np.broadcast_to(np.asarray(coseff_arg, dtype=np.float64), (k,))
            # source tie: RegionGeomToO.mcintegral as translated from the source, on the path its configuration switch selects; the
            # per-event column the code hands to `store` is compared with the term under the second np.sum
            import srctie
            colname_ = "tmcintopt" if method == "Optical" else "tmcintrad"
            srctie.compare_split(ctx, "C03", "mcTargetCut" if (cut_on and method == "Optical") else "mcTargetNoCut",
                                 [trig, ce_arr, p, np.float64(thr), np.float64(sn), np.float64(ss), L, np.float64(n), dark, ldec],
                                 SRC_REDUCERS, [got[0], got[1], got[2], got[3]],
                                 real_terms=[None, stored.get(colname_), None, None] if k else None, rtol=1e-12)
            cols = np.column_stack([L, ldec, ce_arr, trig, p, dark.astype(np.float64)]) if k else np.zeros((0, 6))
            lines.append(drv_target(thr, sn, ss, float(n), cut_on, method, cols))
            colname = "tmcintopt" if method == "Optical" else "tmcintrad"
            case = {"cfg": ci, "stream": stream, "n_times": n, "n_kept": k, "method": method, "cut_on": cut_on,
                    "threshold": thr, "spec_norm": sn, "spec_sum": ss,
                    "integral": float(got[0]), "geo": float(got[1]), "npass": int(got[2])}
            pend.append((got, stored.get(colname), case))
            # ---- property-level oracle on the REAL outputs
            o_int, o_geo, o_n, contrib = oracle_target(L, ldec, coseff_arg, trig, thr, p, sn, ss, n, dark, cut_on, method)
            big = dict(case, L=L[:8], lenDec=ldec[:8], trig=trig[:8], dark=dark[:8])
            if not relclose(got[0], o_int, 1e-9, 1e-300):
                cls = "integral-formula"
                if k and k != n and relclose(got[0] * n / k, o_int, 1e-9):
                    cls = "divided-by-surviving"
                elif method == "Radio" and cut_on:
                    o2 = oracle_target(L, ldec, coseff_arg, trig, thr, p, sn, ss, n, dark, cut_on, "Optical")[0]
                    if relclose(got[0], o2, 1e-9, 1e-300):
                        cls = "dark-cut-applied-to-radio"
                elif method == "Optical" and cut_on:
                    o2 = oracle_target(L, ldec, coseff_arg, trig, thr, p, sn, ss, n, dark, False, "Optical")[0]
                    if relclose(got[0], o2, 1e-9, 1e-300):
                        cls = "dark-cut-not-applied"
                ctx.violation(site, cls, f"integral {float(got[0])!r} != documented estimator {o_int!r}", big)
            if not relclose(got[1], o_geo, 1e-9, 1e-300):
                ctx.violation(site, "geo-formula", f"geo-only integral {float(got[1])!r} != {o_geo!r}", big)
            if int(got[2]) != o_n:
                ctx.violation(site, "npass", f"passing count {int(got[2])} != {o_n}", big)
            if abs(sn * ss - 1.0) < 1e-12 and got[0] > BSHR * got[1] * (1 + 1e-9):
                ctx.violation(site, "exceeds-0.826-geo", "integral above 0.826 x geometric integral", big)
            if colname not in stored or set(stored) != {colname}:
                ctx.violation(site, "column-name", f"stored columns {sorted(stored)} for method {method}", case)
            elif k and not np.allclose(stored[colname], contrib, rtol=1e-9, atol=0.0):
                ctx.violation(site, "column-values", "stored per-event column differs from the documented contributions", big)
            if cut_on and method == "Optical":
                # evaluated at each EVENT time: the cut must be asked for exactly the kept instants
                want = times[hm][vm]
                if "times" not in seen or len(seen["times"]) != k or (k and not np.all(seen["times"] == want)):
                    ctx.violation(site, "dark-cut-times", "sun_moon_cut was not evaluated at the kept event times", case)
            elif "times" in seen:
                ctx.violation(site, "dark-cut-called", "sun_moon_cut evaluated although the cut does not apply", case)
            ctx.case((site, ci, stream, method, k, o_n) if 0 < o_n < k else None,
                     dict(case, op=site) if 2 <= len(ctx.samples) < 4 else None)
            ctx.count(f"target_{stream}_{method}")
            ctx.count("target_ties_trigger", int(np.sum(trig == thr)))
            ctx.count("target_ties_decay", int(np.sum(L == ldec)))
            # ---- metamorphic on the real code
            with np.errstate(all="ignore"):
                if k >= 2:
                    perm = rng.permutation(k)
                    geom.losPathLen = L[perm].copy()
                    geom.too_source.sun_moon_cut = lambda t, d=dark[perm]: d.copy()
                    ce2 = coseff_arg if np.ndim(coseff_arg) == 0 else coseff_arg[perm]
                    got2 = geom.mcintegral(trig[perm], ce2, p[perm], thr, sn, ss, lenDec=ldec[perm], method=method)
                    geom.losPathLen = L.copy()
                    ctx.case(n=1)
                    if not (relclose(got2[0], got[0], 1e-10) and relclose(got2[1], got[1], 1e-10) and got2[2] == got[2]):
                        ctx.violation(site, "not-permutation-invariant", "reordering the events changes the result", case)
                geom.too_source.sun_moon_cut = lambda t, d=dark: d.copy()
                thr2 = thr * float(rng.choice([1.0 + 1e-12, 1.5, 10.0]))
                got3 = geom.mcintegral(trig, coseff_arg, p, thr2, sn, ss, lenDec=ldec, method=method)
                ctx.case(n=1)
                if got3[0] > got[0] * (1 + 1e-12) or got3[2] > got[2]:
                    ctx.violation(site, "not-antitone-in-threshold", "raising the threshold increases the integral or count", case)
                # switch channel: radio ignores the dark mask entirely; optical with the cut is never above radio
                geom.too_source.sun_moon_cut = lambda t, d=dark: d.copy()
                g_opt = geom.mcintegral(trig, coseff_arg, p, thr, sn, ss, lenDec=ldec, method="Optical")
                g_rad = geom.mcintegral(trig, coseff_arg, p, thr, sn, ss, lenDec=ldec, method="Radio")
                geom.too_source.sun_moon_cut = lambda t, d=dark: ~d
                g_rad2 = geom.mcintegral(trig, coseff_arg, p, thr, sn, ss, lenDec=ldec, method="Radio")
                ctx.case(n=3)
                if not (g_rad[0] == g_rad2[0] and g_rad[2] == g_rad2[2]):
                    ctx.violation(site, "dark-cut-applied-to-radio", "radio result depends on the sun/moon mask", case)
                if g_opt[0] > g_rad[0] * (1 + 1e-12) or g_opt[2] > g_rad[2]:
                    ctx.violation(site, "dark-cut-adds-events", "optical (with cut) exceeds radio on identical inputs", case)
                if not cut_on and not (g_opt[0] == g_rad[0] and g_opt[2] == g_rad[2]):
                    ctx.violation(site, "dark-cut-not-optional", "cut disabled in the configuration but optical != radio", case)
        # malformed: unknown method
        try:
            geom.mcintegral(np.ones(1), 0.99, np.ones(1), 1.0, 1.0, 1.0, lenDec=np.zeros(1), method="Both")
            ctx.count("malformed_method:no-error")
        except ValueError:
            ctx.count("malformed_method:ValueError")
        except Exception as e:  # noqa: BLE001
            ctx.count(f"malformed_method:{type(e).__name__}")
        ctx.case(n=1)
    out = run_driver(lines)
    for tok, (got, col, case) in zip(out, pend):
        mi, mg, mn, mf = parse_out(tok)
        ok = relclose(mi, got[0], 1e-10, 1e-300) and relclose(mg, got[1], 1e-10, 1e-300) and mn == int(got[2])
        if ok and col is not None and len(mf) == len(col) and len(col):
            ok = bool(np.allclose(mf, col, rtol=1e-12, atol=0.0)) and bool(np.array_equal(mf == 0, col == 0))
        if not ok:
            ctx.disagree("C03.mcintegral_target", dict(case, model=[mi, mg, mn]))
    ctx.traces += len(pend)


# --------------------------------------------------------------------------- part 2: compute() end to end


def e2e_configs(nss, rng, thorough):
    """(id, config) pairs: both modes x optical/radio on/off x mono/power spectrum."""
    out = []
    combos = [
        ("Diffuse", True, True, "mono"), ("Diffuse", True, False, "power"), ("Diffuse", False, True, "mono"),
        ("Diffuse", True, True, "power"), ("Diffuse", True, False, "mono"), ("Diffuse", False, True, "power"),
        ("Target", True, True, "mono"), ("Target", True, False, "power"), ("Target", False, True, "mono"),
        ("Target", True, True, "power"), ("Target", True, False, "mono"), ("Target", True, True, "mono"),
    ]
    if thorough:
        combos = combos * 3
    for i, (mode, opt, rad, spec) in enumerate(combos):
        cfg = nss.NssConfig()
        cfg.simulation.mode = mode
        cfg.detector.optical.enable = opt
        cfg.detector.radio.enable = rad
        cfg.simulation.thrown_events = int(rng.integers(100, 300))
        if spec == "mono":
            cfg.simulation.spectrum = nss.config.Simulation.MonoSpectrum(log_nu_energy=float(rng.choice([8.0, 9.5, 10.5])))
        else:
            cfg.simulation.spectrum = nss.config.Simulation.PowerSpectrum(
                index=(1.0 if i in (1, 7) else float(rng.choice([2.0, 2.5, 1.0, 0.0, 3.0]))), lower_bound=float(rng.choice([7.0, 8.0])), upper_bound=float(rng.choice([10.0, 11.0])))
        cfg.detector.initial_position.altitude = float(rng.choice([525.0, 33.0, 1000.0]))
        # thresholds low enough that events pass in both channels
        cfg.detector.optical.photo_electron_threshold = float(rng.choice([10.0, 1.0, 50.0]))
        cfg.detector.radio.snr_threshold = float(rng.choice([5.0, 0.05, 0.5]))
        if mode == "Diffuse":
            cfg.simulation.max_cherenkov_angle = float(np.radians(rng.choice([3.0, 1.5, 5.0])))
            cfg.simulation.angle_from_limb = float(np.radians(rng.choice([7.0, 4.0])))
        else:
            # the time grid is cheap, the kept rows are what costs: throw more instants so that a few dozen survive
            cfg.simulation.thrown_events = int(rng.integers(1500, 3000))
            # target-mode SNRs are ~0 (compute passes the nadir angle as view angle): threshold 0 makes the tie snr == thr the deciding case
            cfg.detector.radio.snr_threshold = float(rng.choice([0.0, 0.0, 1e-290, 0.1]))
            cfg.simulation.target.source_RA = float(rng.uniform(0, 2 * np.pi))
            cfg.simulation.target.source_DEC = float(rng.uniform(-0.4, 0.4))
            cfg.simulation.target.source_obst = float(rng.choice([86400.0, 2 * 86400.0]))
            cfg.simulation.target.source_date = f"2022-{int(rng.integers(1, 13)):02d}-{int(rng.integers(1, 28)):02d}T{int(rng.integers(0, 24)):02d}:00:00"
            cfg.detector.sun_moon.sun_moon_cuts = bool(i % 2 == 0)
            cfg.detector.sun_moon.sun_alt_cut = float(np.radians(rng.choice([-18.0, -6.0, 0.0])))
            cfg.detector.sun_moon.moon_min_phase_angle_cut = float(np.radians(rng.choice([150.0, 90.0])))
        out.append((f"{i}:{mode}:{'O' if opt else ''}{'R' if rad else ''}:{spec}", cfg))
    return out


def part_e2e(ctx, nss, configs=None):
    import dask
    from astropy.time import Time
    from nuspacesim.compute import compute
    from nuspacesim.simulation.eas_radio.radio_antenna import calculate_snr
    from nuspacesim.simulation.geometry.too import ToOEvent
    from nuspacesim.simulation.spectra.spectra import spec_norm, sum_spec_weights
    rng = ctx.rng
    dask.config.set(scheduler="synchronous")
    for cid, cfg, *given in (configs if configs is not None else e2e_configs(nss, rng, ctx.thorough)):
        np.random.seed(int(rng.integers(0, 2**31 - 1)))
        with quiet(), np.errstate(all="ignore"):
            sim = compute(cfg)
        ctx.traces += 1
        nrow = len(sim)
        ctx.count(f"e2e_{cfg.simulation.mode}")
        ctx.count("e2e_rows", nrow)
        if nrow == 0 or "tauExitProb" not in sim.colnames:
            ctx.count("e2e_empty")
            ctx.case(n=1)
            continue
        N = float(cfg.simulation.thrown_events)
        sn = float(spec_norm(cfg.simulation.spectrum))
        ss = float(sum_spec_weights(cfg.simulation.spectrum))
        alt = float(cfg.detector.initial_position.altitude)
        col = lambda n: np.asarray(sim[n], dtype=np.float64)  # noqa: E731
        p = col("tauExitProb")
        L = col("path_len")
        chans = []
        if cfg.detector.optical.enable:
            chans.append(("Optical", "O", col("numPEs"), col("costhetaChEff"), float(cfg.detector.optical.photo_electron_threshold)))
        if cfg.detector.radio.enable:
            with np.errstate(all="ignore"):
                snr = np.asarray(calculate_snr(np.asarray(sim["EFields"]), (cfg.detector.radio.low_frequency, cfg.detector.radio.high_frequency),
                                               alt, cfg.detector.radio.nantennas, cfg.detector.radio.gain), dtype=np.float64)
            chans.append(("Radio", "R", snr, np.full(nrow, np.cos(cfg.simulation.max_cherenkov_angle)), float(cfg.detector.radio.snr_threshold)))
        for method, pre, trig, coseff, thr in chans:
            hdr = {k_: sim.meta[pre + k_][0] for k_ in ("MCINT", "MCINTGO", "NEVPASS")}
            site = f"compute[{cfg.simulation.mode},{method}]"
            case = {"cfg": cid, "thrown": int(N), "rows": nrow, "header": {k_: float(v) for k_, v in hdr.items()},
                    "np_random_seed": "drawn from VERIF_SEED stream"}
            if given:
                case["configuration"] = limits_summary(cfg, given[0])
            if cfg.simulation.mode == "Diffuse":
                mcn = h2f(run_driver([f"c03norm {f2h(alt)} {f2h(cfg.simulation.angle_from_limb)} "
                                      f"{f2h(cfg.simulation.max_cherenkov_angle)} {f2h(cfg.simulation.max_azimuth_angle)}"])[0][0])
                cols = np.column_stack([col("beta_rad"), col("theta_rad"), L, trig, coseff, p])
                mi, mg, mn, _ = parse_out(run_driver([drv_dcols(alt, thr, sn, ss, mcn, N, cols)])[0])
                # independent numpy oracle from the same columns
                D, R = 6378.1 + alt, 6378.1
                w = np.sin(col("beta_rad")) / ((D * D - R * R - L * L) / (2 * R * L)) / np.cos(col("theta_rad"))
                # the documented estimator has no spectral factor: the two factors compute() passes in multiply to 1 (C12)
                o_int, o_geo, o_n, _ = oracle_diffuse(w, np.cos(col("theta_rad")), coseff, trig, thr, p, 1.0, 1.0, mcn, N)
                colcheck = None
            else:
                cut_on = bool(cfg.detector.sun_moon.sun_moon_cuts)
                if cut_on and method == "Optical":
                    dark = np.asarray(ToOEvent(cfg).sun_moon_cut(Time(sim["times"])), dtype=bool)
                    # ... and the rule evaluated from the CONFIGURED limits with the ephemerides from astropy directly: where the two differ
                    # (away from exact ties) the configured numbers decide, so that the header / column oracles below go by them
                    cdark, decided, matters = configured_dark(cfg, Time(sim["times"]))
                    ctx.count("e2e_Target_rows_where_a_limit_value_decides", int(np.any(list(matters.values()), axis=0).sum()))
                    if np.any((cdark != dark) & decided):
                        ctx.count("e2e_Target_dark_flags_not_those_of_the_configured_limits", int(((cdark != dark) & decided).sum()))
                        dark = np.where(decided, cdark, dark)
                        case["dark_sky"] = "rule evaluated from the configured limits (differs from ToOEvent(cfg).sun_moon_cut at the table's times)"
                    case.setdefault("configuration", limits_summary(cfg))
                else:
                    dark = np.ones(nrow, dtype=bool)
                ldec = col("lenDec")
                cols = np.column_stack([L, ldec, coseff, trig, p, dark.astype(np.float64)])
                mi, mg, mn, mf = parse_out(run_driver([drv_target(thr, sn, ss, N, cut_on, method, cols)])[0])
                o_int, o_geo, o_n, contrib = oracle_target(L, ldec, coseff, trig, thr, p, 1.0, 1.0, N, dark, cut_on, method)
                colname = "tmcintopt" if method == "Optical" else "tmcintrad"
                colcheck = (colname, mf, contrib)
            # model (from columns) vs reported header: this is the correspondence of the wiring
            if not (relclose(mi, hdr["MCINT"], 1e-10, 1e-300) and relclose(mg, hdr["MCINTGO"], 1e-10, 1e-300) and mn == int(hdr["NEVPASS"])):
                ctx.disagree(f"C03.wiring[{cfg.simulation.mode},{method}]", dict(case, model=[mi, mg, mn]))
            # property-level oracle on the real outputs
            if not relclose(hdr["MCINT"], o_int, 1e-9, 1e-300):
                ctx.violation(site, "header-integral", f"{pre}MCINT {float(hdr['MCINT'])!r} != estimator from the table's columns {o_int!r}", case)
            if not relclose(hdr["MCINTGO"], o_geo, 1e-9, 1e-300):
                ctx.violation(site, "header-geo", f"{pre}MCINTGO {float(hdr['MCINTGO'])!r} != geometric estimator from the columns {o_geo!r}", case)
            if int(hdr["NEVPASS"]) != o_n:
                ctx.violation(site, "header-npass", f"{pre}NEVPASS {int(hdr['NEVPASS'])} != {o_n}", case)
            if hdr["MCINT"] > BSHR * hdr["MCINTGO"] * (1 + 1e-9):
                ctx.violation(site, "exceeds-0.826-geo", "reported integral above 0.826 x geometric integral", case)
            if colcheck is not None:
                colname, mf, contrib = colcheck
                if colname not in sim.colnames:
                    ctx.violation(site, "column-missing", f"column {colname} missing", case)
                else:
                    cc = col(colname)
                    if not np.allclose(cc, contrib, rtol=1e-9, atol=0.0):
                        ctx.violation(site, "column-values", f"column {colname} differs from the documented contributions", case)
                    if len(mf) == len(cc) and not np.allclose(mf, cc, rtol=1e-12, atol=0.0):
                        ctx.disagree(f"C03.wiring-column[{method}]", case)
            ctx.case((site, cid, o_n) if 0 < o_n < nrow else None, dict(case, op=site) if 4 <= len(ctx.samples) < 6 else None, n=3)
            ctx.count(f"e2e_{cfg.simulation.mode}_{method}_pass", o_n)
            if cfg.simulation.mode == "Target" and method == "Optical" and bool(cfg.detector.sun_moon.sun_moon_cuts):
                ctx.count("e2e_Target_dark_rows", int(dark.sum()))
                ctx.count("e2e_Target_bright_rows", int((~dark).sum()))


# --------------------------------------------------------------------------- part 3: configured limits / thresholds / switches
# Property text: "in target mode ... optical events additionally need a dark sky", "an event contributes only if its signal reaches
# the threshold", quantified over ALL configurations and ALL thresholds. The dark sky is the one the CONFIGURED limits define
# (detector.sun_moon.sun_alt_cut / moon_alt_cut / moon_min_phase_angle_cut — the numbers the results header records), the threshold
# is the configured one, the switch is the configured one. A limit, threshold or switch is a NUMBER (or a Boolean): 0, 0.0, -0.0,
# False, the smallest numbers either side of 0 and every spelling that the configuration turns into one of them are values like any
# other, not "nothing given". The streams below put every one of these settings at such values (and at generic ones) and evaluate the
# dark-sky rule from the configured numbers and the ephemerides taken from astropy directly (not through ToOEvent), on runs chosen so
# that the value of the limit decides events: instants while the Sun / Moon / phase angle lies between the configured limit and other
# values of it (twilight for a Sun limit of 0, a bright Moon above the horizon for a phase limit of 0, ...).

ALT_LIMITS = {"sun_alt_cut": [-18.0, -6.0, 6.0, -30.0], "moon_alt_cut": [-10.0, 10.0, 0.0, 30.0],
              "moon_min_phase_angle_cut": [150.0, 90.0, 179.0, 30.0]}


def ephemeris(cfg, times):
    """Sun altitude, Moon altitude (as seen from the configured detector) and the Moon's phase angle [rad], from astropy directly."""
    import astropy.coordinates as ac
    from astropy import units as au
    ip = cfg.detector.initial_position
    loc = ac.EarthLocation(lat=float(ip.latitude) * au.rad, lon=float(ip.longitude) * au.rad, height=float(ip.altitude) * 1000 * au.m)
    fr = ac.AltAz(obstime=times, location=loc)
    with np.errstate(all="ignore"):
        sun = ac.get_body("sun", times)
        moon = ac.get_body("moon", times)
        el = sun.separation(moon)
        phase = np.arctan2(sun.distance * np.sin(el), moon.distance - sun.distance * np.cos(el)).to_value(au.rad)
        return (np.atleast_1d(np.asarray(sun.transform_to(fr).alt.rad, dtype=np.float64)),
                np.atleast_1d(np.asarray(moon.transform_to(fr).alt.rad, dtype=np.float64)), np.atleast_1d(np.asarray(phase, dtype=np.float64)))


def dark_rule(eph, sc, mc, pc):
    sun, moon, phase = eph
    return (sun < sc) & ((phase > pc) | (moon < mc))


def configured_dark(cfg, times, eph=None):
    """(dark, decided, matters): the dark-sky rule from the CONFIGURED limits; `decided` is False where an angle is within 1e-9 rad of
    its limit (there the last bits of the ephemeris decide: not compared); matters[name] = instants at which the VALUE of that limit
    decides (the flag changes when the limit takes another value)."""
    sm = cfg.detector.sun_moon
    lim = {k_: float(getattr(sm, k_)) for k_ in ALT_LIMITS}
    eph = ephemeris(cfg, times) if eph is None else eph
    dark = dark_rule(eph, lim["sun_alt_cut"], lim["moon_alt_cut"], lim["moon_min_phase_angle_cut"])
    decided = ((np.abs(eph[0] - lim["sun_alt_cut"]) > 1e-9) & (np.abs(eph[1] - lim["moon_alt_cut"]) > 1e-9)
               & (np.abs(eph[2] - lim["moon_min_phase_angle_cut"]) > 1e-9))
    matters = {}
    for name, alts in ALT_LIMITS.items():
        m = np.zeros(len(dark), dtype=bool)
        for a in alts:
            l2 = dict(lim, **{name: float(np.radians(a))})
            m |= dark_rule(eph, l2["sun_alt_cut"], l2["moon_alt_cut"], l2["moon_min_phase_angle_cut"]) != dark
        matters[name] = m
    return dark, decided, matters


def zero_like(rng, exact=False):
    """One value a truthiness test drops (exact: only those), or one of its neighbours either side of 0, in one of the forms a
    configuration accepts -> (label, value)."""
    from astropy.units import Quantity
    from astropy import units as au
    tiny = float(np.nextafter(0.0, 1.0))
    forms = [("0.0", 0.0), ("-0.0", -0.0), ("int 0", 0), ("False", False), ("'0 deg'", "0 deg"), ("'0.0 rad'", "0.0 rad"),
             ("'-0.0 deg'", "-0.0 deg"), ("Quantity(0 deg)", Quantity(0.0, au.deg)), ("np.float64(0)", np.float64(0.0)),
             ("+5e-324", tiny), ("-5e-324", -tiny), ("+1e-12", 1e-12), ("-1e-12", -1e-12)]
    return forms[int(rng.integers(0, 9 if exact else len(forms)))]


def limits_section(nss, rng, focus, cuts=True, exact=False):
    """detector.sun_moon with the limit `focus` at a zero-like value, the others generic (or, one time in three, zero-like too);
    built through the section's constructor, i.e. by the route on which a configuration file's values arrive."""
    generic = {"sun_alt_cut": [-18.0, -12.0, -6.0, -0.5, 1.0], "moon_alt_cut": [0.0, -5.0, 10.0], "moon_min_phase_angle_cut": [150.0, 90.0, 120.0, 180.0]}
    kw, labels = {}, {}
    for name in ALT_LIMITS:
        if name == focus or rng.random() < 1 / 3:
            labels[name], kw[name] = zero_like(rng, exact and name == focus)
        else:
            d = float(rng.choice(generic[name]))
            labels[name], kw[name] = f"{d} deg", float(np.radians(d))
    return nss.config.Detector.SunMoon(sun_moon_cuts=cuts, **kw), labels


def limits_summary(cfg, labels=None):
    sm, ip, tg = cfg.detector.sun_moon, cfg.detector.initial_position, cfg.simulation.target
    return {"sun_moon_cuts": sm.sun_moon_cuts, "sun_alt_cut": sm.sun_alt_cut, "moon_alt_cut": sm.moon_alt_cut,
            "moon_min_phase_angle_cut": sm.moon_min_phase_angle_cut, "given_as": labels,
            "detector_lat_lon_alt": [float(ip.latitude), float(ip.longitude), float(ip.altitude)],
            "source_RA_DEC": [float(tg.source_RA), float(tg.source_DEC)], "source_date": tg.source_date, "source_obst": float(tg.source_obst),
            "photo_electron_threshold": cfg.detector.optical.photo_electron_threshold, "snr_threshold": cfg.detector.radio.snr_threshold}


def part_limits(ctx, nss, RegionGeomToO):
    """The real RegionGeomToO.mcintegral with the REAL dark-sky cut of an object built from the configuration (nothing stubbed, nothing
    set on the object afterwards): integral, passing count and stored column against the estimator with the dark-sky rule evaluated
    from the configured limits."""
    rng = ctx.rng
    site = "RegionGeomToO.mcintegral"
    reps = 36 if ctx.thorough else 12
    for rep in range(reps):
        focus = list(ALT_LIMITS)[rep % 3]
        cfg = nss.NssConfig()
        cfg.simulation.mode = "Target"
        ip = cfg.detector.initial_position
        ip.altitude = float(rng.choice([525.0, 33.0, 1000.0]))
        ip.latitude, ip.longitude = float(rng.uniform(-0.9, 0.9)), float(rng.uniform(-np.pi, np.pi))
        tg = cfg.simulation.target
        tg.source_RA, tg.source_DEC = float(rng.uniform(0, 2 * np.pi)), float(rng.uniform(-0.5, 0.5))
        tg.source_date = f"2022-{int(rng.integers(1, 13)):02d}-{int(rng.integers(1, 28)):02d}T{int(rng.integers(0, 24)):02d}:00:00"
        # a day for the Sun's limit (two twilights), a lunation for the Moon's limits (every phase, Moon up and down at night)
        tg.source_obst = 86400.0 if focus == "sun_alt_cut" else 30 * 86400.0
        # the switch itself in the forms a configuration accepts; one run in six with the cut switched off by a falsy spelling
        cuts_given = (True, 1, "true", True, 1.0, (False, 0, "false")[rep % 3])[rep % 6]
        cfg.detector.sun_moon, labels = limits_section(nss, rng, focus, cuts_given, exact=(rep // 3) % 2 == 0)
        cut_on = bool(cfg.detector.sun_moon.sun_moon_cuts)
        geom = RegionGeomToO(cfg)
        n = 160
        with np.errstate(all="ignore"):
            geom.throw(n)
        hm = rng.random(n) < 0.85
        vm = rng.random(int(hm.sum())) < 0.85
        k = int(vm.sum())
        geom.horizon_mask, geom.volume_mask = hm, vm
        L = rng.uniform(10.0, 3000.0, k)
        geom.losPathLen = L.copy()
        ldec = rng.exponential(50.0, k) * np.exp(rng.normal(0, 2, k))
        coseff = np.cos(np.radians(rng.uniform(0.2, 5.0, k)))
        p = rng.uniform(1e-6, 1.0, k)
        # thresholds are numbers too: 0, -0.0 and signed signals next to generic ones (photo-electron counts are >= 0, SNRs signed)
        tk = rep % 4
        if tk == 0:
            trig, thr = np.floor(np.exp(rng.normal(0.5, 1.5, k))), (0.0, -0.0, 0)[rep % 3]
        elif tk == 1:
            trig, thr = rng.normal(0.0, 2.0, k), (0.0, -0.0, -1.0)[(rep // 4) % 3]
            trig[:: 7] = 0.0
        else:
            trig, thr = np.exp(rng.normal(2.0, 1.5, k)), float(np.exp(rng.normal(2.0, 0.7)))
        times = geom.times[hm][vm]
        dark, decided, matters = configured_dark(cfg, times)
        ctx.count("limits_direct_calls")
        if not decided.all():
            ctx.count("limits_direct_near_tie_skipped")
            continue
        stored = {}

        def store(names, cols, stored=stored):
            stored[names[0]] = np.array(cols[0], copy=True)

        with np.errstate(all="ignore"):
            got = geom.mcintegral(trig, coseff, p, thr, 1.0, 1.0, lenDec=ldec, method="Optical", store=store)
            g_rad = geom.mcintegral(trig, coseff, p, thr, 1.0, 1.0, lenDec=ldec, method="Radio")
        o_int, o_geo, o_n, contrib = oracle_target(L, ldec, coseff, trig, float(thr), p, 1.0, 1.0, n, dark, cut_on, "Optical")
        r_int, _, r_n, _ = oracle_target(L, ldec, coseff, trig, float(thr), p, 1.0, 1.0, n, dark, cut_on, "Radio")
        case = dict(limits_summary(cfg, labels), focus=focus, sun_moon_cuts_given_as=repr(cuts_given), n_times=n, n_kept=k,
                    threshold=thr, integral=float(got[0]), npass=int(got[2]), expected_integral=o_int, expected_npass=o_n,
                    dark_instants=int(dark.sum()), instants_where_the_limit_decides={k_: int(v.sum()) for k_, v in matters.items()},
                    seed=ctx.seed, rep=rep)
        col = stored.get("tmcintopt")
        bad_col = col is None or len(col) != k or not np.allclose(col, contrib, rtol=1e-9, atol=0.0) or not np.array_equal(col == 0, contrib == 0)
        if not relclose(got[0], o_int, 1e-9, 1e-300) or int(got[2]) != o_n or bad_col:
            # an event that contributes although its signal is below the configured threshold cannot be the dark-sky rule's doing
            cls = "dark-sky-mask-differs-from-the-configured-limits" if cut_on else "dark-sky-cut-applied-although-switched-off"
            passes_thr = oracle_target(L, ldec, coseff, trig, float(thr), p, 1.0, 1.0, n, np.ones(k, dtype=bool), False, "Optical")[3]
            if col is not None and len(col) == k and np.any((col != 0) & (passes_thr == 0)):
                cls = "threshold-differs-from-the-configured-value"
            ctx.violation(site, cls,
                          f"optical integral {float(got[0])!r} / passing {int(got[2])} / stored column differ from the estimator with the dark-sky rule "
                          f"of the configured limits (sun_alt_cut given as {labels['sun_alt_cut']}, moon_alt_cut as {labels['moon_alt_cut']}, "
                          f"moon_min_phase_angle_cut as {labels['moon_min_phase_angle_cut']}, sun_moon_cuts as {cuts_given!r}, threshold {thr!r}): "
                          f"expected {o_int!r} / {o_n}", case)
        if not relclose(g_rad[0], r_int, 1e-9, 1e-300) or int(g_rad[2]) != r_n:
            ctx.violation(site, "radio-differs-from-the-estimator-at-the-configured-values", f"radio integral {float(g_rad[0])!r} / {int(g_rad[2])} != {r_int!r} / {r_n}", case)
        decides = int(matters[focus].sum())
        ctx.case((site, "configured-limits", focus, labels[focus], k, o_n) if (cut_on and decides and 0 < dark.sum() < k) else None, n=2)
        ctx.count(f"limits_direct_{focus}_given_as_{labels[focus]}")
        ctx.count("limits_direct_instants_where_the_focus_limit_decides", decides)
        ctx.count("limits_direct_threshold_" + ("zero" if float(thr) == 0 else "generic"))
        if not cut_on:
            ctx.count("limits_direct_switch_off_" + repr(cuts_given))


def twilight_source(cfg, rng, focus):
    """Choose date and source position of a Target run so that events happen while the VALUE of the limit `focus` decides the dark-sky
    flag: the source stands in the band below the limb from which trajectories are accepted at instants at which the flag under the
    configured limits differs from the flag under other values of that limit. Ephemerides from astropy, source altitude from the
    sidereal time (a degree is accurate enough for choosing a run). Returns the number of such instants out of 240."""
    from astropy import units as au
    from astropy.time import Time, TimeDelta
    ip, tg = cfg.detector.initial_position, cfg.simulation.target
    R = 6378.1
    dep = float(np.arccos(R / (R + ip.altitude)))
    lo, hi = -dep - min(float(cfg.simulation.angle_from_limb), np.radians(30.0)), -dep
    best = (-1, None)
    for _ in range(6):
        date = f"2022-{int(rng.integers(1, 13)):02d}-{int(rng.integers(1, 28)):02d}T{int(rng.integers(0, 24)):02d}:00:00"
        times = Time(date, format="isot", scale="utc") + TimeDelta(np.arange(240) / 240 * tg.source_obst, format="sec")
        tg.source_date = date
        _, _, matters = configured_dark(cfg, times)
        m = matters[focus]
        if not m.any():
            continue
        with np.errstate(all="ignore"):
            lst = np.asarray(times.sidereal_time("mean", longitude=float(ip.longitude) * au.rad).rad)
        ras = np.radians(np.arange(0.0, 360.0, 4.0))[:, None, None]
        decs = np.radians(np.array([-25.0, -12.0, 0.0, 12.0, 25.0]))[None, :, None]
        sinalt = np.sin(ip.latitude) * np.sin(decs) + np.cos(ip.latitude) * np.cos(decs) * np.cos(lst[None, None, :] - ras)
        alt = np.arcsin(np.clip(sinalt, -1, 1))
        score = ((alt > lo) & (alt < hi) & m[None, None, :]).sum(axis=2)
        i, j = np.unravel_index(int(np.argmax(score)), score.shape)
        if score[i, j] > best[0]:
            best = (int(score[i, j]), (date, float(ras[i, 0, 0]), float(decs[0, j, 0])))
        if best[0] >= 12:
            break
    if best[1] is not None:
        tg.source_date, tg.source_RA, tg.source_DEC = best[1]
    return max(best[0], 0)


def limit_e2e_configs(nss, rng, thorough):
    """(id, config, labels) for compute(): Target mode, optical channel, one of the three limits at a zero-like value, and the two
    radio threshold at 0.0 / -0.0; Diffuse mode with the radio threshold at zero."""
    out = []
    foci = list(ALT_LIMITS)
    order = [foci[i] for i in rng.permutation(3)]
    plan = (order + order) if thorough else [order[0], ("sun_alt_cut" if order[0] != "sun_alt_cut" else order[1])]
    for i, focus in enumerate(plan):
        cfg = nss.NssConfig()
        cfg.simulation.mode = "Target"
        cfg.detector.radio.enable = bool(i % 2)
        cfg.simulation.thrown_events = int(rng.integers(1800, 2400))
        cfg.simulation.spectrum = nss.config.Simulation.MonoSpectrum(log_nu_energy=float(rng.choice([10.0, 10.5])))
        ip = cfg.detector.initial_position
        ip.altitude = 33.0
        ip.latitude, ip.longitude = float(rng.uniform(-0.5, 0.5)), float(rng.uniform(-np.pi, np.pi))
        # the photo-electron threshold stays positive in compute(): the optical module divides by it (enhancement factor numPEs / threshold),
        # so that at 0 the stored costhetaChEff is NaN — outside this property's quantifier (cosines in [-1,1]); the threshold 0 is
        # exercised on the estimator itself in part_limits / the `signed` stream, and the radio threshold at 0.0 / -0.0 here
        cfg.detector.optical.photo_electron_threshold = (0.5, 10.0, 1.0)[int(rng.integers(0, 3))]
        cfg.detector.radio.snr_threshold = (0.0, -0.0)[i % 2]
        cfg.simulation.target.source_obst = 86400.0
        cfg.detector.sun_moon, labels = limits_section(nss, rng, focus, True, exact=True)
        score = twilight_source(cfg, rng, focus)
        out.append((f"L{i}:Target:O{'R' if i % 2 else ''}:{focus} given as {labels[focus]}:{score}/240 instants decided by it", cfg, labels))
    cfg = nss.NssConfig()
    cfg.simulation.thrown_events = int(rng.integers(100, 300))
    cfg.simulation.spectrum = nss.config.Simulation.MonoSpectrum(log_nu_energy=float(rng.choice([9.5, 10.5])))
    cfg.detector.optical.photo_electron_threshold = (0.5, 1.0)[int(rng.integers(0, 2))]
    cfg.detector.radio.snr_threshold = (0.0, -0.0)[int(rng.integers(0, 2))]
    out.append(("L:Diffuse:OR:snr threshold 0", cfg, None))
    return out


def run(ctx: Ctx):
    import nuspacesim as nss
    from astropy import units
    from astropy.constants import R_earth
    from nuspacesim.simulation.geometry.region_geometry import RegionGeom, RegionGeomToO
    try:
        from astropy.utils import iers
        iers.conf.auto_download = False
        iers.conf.iers_degraded_accuracy = "ignore"
    except Exception:  # noqa: BLE001
        pass
    got = [h2f(x) for x in run_driver(["c03const"])[0]]
    for name, a, b in zip(["Bshr", "R_earth"], got, [0.826, R_earth.to(units.km).value]):
        ctx.case(("const", name))
        if a != b:
            ctx.disagree("C03.constants", {"name": name, "model": a, "code": b})
    part_diffuse(ctx, nss, RegionGeom)
    part_target(ctx, nss, RegionGeomToO)
    part_e2e(ctx, nss)
    part_limits(ctx, nss, RegionGeomToO)
    part_e2e(ctx, nss, limit_e2e_configs(nss, ctx.rng, ctx.thorough))


def search(ctx: Ctx):
    """Failing-input search: the oracles in run() evaluate the property on the real code; widen the streams."""
    if ctx.tier != "thorough":
        ctx.tier = "thorough"
        run(ctx)


if __name__ == "__main__":
    sys.exit(main_for("C03", sys.modules[__name__]))
