"""C07 — tau kinematics and decay point: correspondence + property oracle on the real code."""
import sys
import warnings

import numpy as np

warnings.filterwarnings("ignore")
from common import *  # noqa

RULE = ("cases = (tauEnergy, etau_frac) through the real Taus.__call__ (energies sampled by the real code from table "
        "versions 1-3 plus synthetic energies down to the tau mass) and (beta, tauBeta, tauLorentz, u) through the real "
        "EAS.altDec with explicit u; streams: structured, boundary (u in {denormal, 1-ulp, 1}, beta in {0, 42 deg, pi/2}, "
        "E at m_tau*(1+ulp)); a case is non-trivial when its (rounded) inputs are distinct and the output is not a default")
ASSUMPTIONS = ["a Taus object reads etau_frac from the configuration it was built from when it is called (reconfiguring and reusing the object is checked)",
               "float tauBeta may round to exactly 1.0 for gamma > ~1e8: accepted (the theorem speed_in_unit is over the reals)"]


def _objects():
    import nuspacesim as nss
    from nuspacesim.simulation.eas_optical.eas import EAS
    from nuspacesim.simulation.taus import taus as taus_mod
    return nss, EAS, taus_mod


# "the smallest reachable tau energy stays above the tau mass" is a joint property of code and the three shipped tables:
# it is proved in Props/C18.lean (kernel-checked zero prefixes of every CDF row + slab bounds, lifted through the
# bilinear interpolation and the inverse transform) and is an obligation of this property too.
EXTRA_TARGETS = ["NssVerif.Props.C18"]
EXTRA_THEOREMS = ["C18.shipped_min_tau_energy_v1", "C18.shipped_min_tau_energy_v2", "C18.shipped_min_tau_energy_v3",
                  "C18.reachable_tau_above_mass"]
# the library functions that spell the same straight line (path_length_tau_atm, altitude_along_path_length, *_along_prop_axis):
# translated from the working tree (Gen/Src/C07Lib.lean), theorems in Props/C07Lib.lean — obligations of this property
EXTRA_TARGETS += ["NssVerif.Props.C07Lib"]
EXTRA_THEOREMS += property_theorems("C07Lib")


def regen():
    import srctie
    import tabutil
    return {**tabutil.regen_tables(), **srctie.regen("C07"), **srctie.regen("C07Lib")}


def batch_compositions(ctx, tau, taus_mod, ver, frac, rng):
    """"For every sampled tau …": the clauses hold for every event whatever else is in the batch.  Emergence angles fall into
    four classes the tau stage treats differently - exactly 0, below the first table node, inside the table, above the last node -
    and a batch may hold any non-empty combination of them (a single horizontal event, a scan in whole degrees starting at 0,
    grazing-only batches, …).  Every combination is evaluated, as a batch and one event at a time."""
    gb = np.asarray(tau.tau_cdf_grid["beta_rad"], dtype=np.float64)
    classes = {
        "zero": lambda k: np.zeros(k),
        "below": lambda k: rng.uniform(0.02, 0.98, k) * gb[0],
        "inside": lambda k: rng.uniform(gb[0], gb[-1], k),
        "above": lambda k: rng.uniform(float(np.nextafter(gb[-1], 4.0)), np.pi / 2, k),
    }
    names = list(classes)
    for bits in range(1, 1 << len(names)):
        members = [nm for j, nm in enumerate(names) if bits >> j & 1]
        parts, labels = [], []
        for nm in members:
            k = int(rng.integers(1, 4))
            parts.append(classes[nm](k)); labels += [nm] * k
        betas = np.concatenate(parts)
        perm = rng.permutation(len(betas))
        betas, labels = betas[perm], [labels[i] for i in perm]
        loge = rng.choice([6.0, 7.3, 9.0, 10.25, 12.0], len(betas)).astype(np.float64)
        evals = [("batch", betas, loge)] + [(f"single[{i}]", betas[i:i + 1], loge[i:i + 1]) for i in range(len(betas))]
        for how, b_, l_ in evals:
            ctx.count("taus_batch_compositions")
            with np.errstate(all="ignore"):
                try:
                    tb, tl, te, se, pe = tau(b_.copy(), l_.copy())
                except Exception as e:  # noqa: BLE001
                    ctx.violation("Taus.__call__", "raises-on-valid-batch", f"{type(e).__name__}: {str(e)[:120]} for a batch of valid angles and energies",
                                  {"version": ver, "classes_in_batch": members, "evaluated_as": how, "betas": [float(x) for x in b_], "log_e_nu": [float(x) for x in l_]})
                    break
            ok = np.isfinite(tl) & np.isfinite(tb) & np.isfinite(se) & (tl >= 1.0) & (tb > 0.0) & (tb <= 1.0) \
                & np.isclose(tl * taus_mod.massTau, te, rtol=1e-12, atol=0) & np.isclose(se * 1e8, frac * te, rtol=1e-12, atol=0)
            # the property quantifies over angles in [0, 42 deg]: above the last node the stage returns 2^-23 E_nu by design (below the
            # tau mass for low E_nu), so such events are in the batch as companions but their kinematics are not judged
            labs = labels if how == "batch" else [labels[int(how[7:-1])]]
            ok = ok | np.array([lb == "above" for lb in labs])
            ctx.case(("composition", ver, tuple(members), how.split("[")[0]))
            if not ok.all():
                i = int(np.nonzero(~ok)[0][0])
                lab = labels[i] if how == "batch" else labels[int(how[7:-1])]
                ctx.violation("Taus.__call__", "kinematics-depend-on-batch-composition",
                              f"an event with an emergence angle of class '{lab}' gets gamma = {float(tl[i])!r}, speed = {float(tb[i])!r}, shower energy = {float(se[i])!r} "
                              f"(tau energy {float(te[i])!r}) in a batch holding the classes {members}",
                              {"version": ver, "etau_frac": frac, "classes_in_batch": members, "evaluated_as": how, "index": i,
                               "betas": [float(x) for x in b_], "log_e_nu": [float(x) for x in l_],
                               "tauEnergy": float(te[i]), "tauLorentz": float(tl[i]), "tauBeta": float(tb[i]), "showerEnergy": float(se[i])})
                return


def run(ctx: Ctx):
    import srctie
    nss, EAS, taus_mod = _objects()
    from astropy import units
    from astropy.constants import R_earth, c
    # ---- pinned constants vs the source
    got = [h2f(x) for x in run_driver(["kinconst"])[0]]
    src = [taus_mod.massTau, taus_mod.mean_Tau_life, c.value, R_earth.to(units.km).value]
    import nuspacesim.simulation.eas_optical.eas as eas_mod
    src[1] = eas_mod.mean_Tau_life
    for name, a, b in zip(["massTau", "mean_Tau_life", "c", "R_earth"], got, src):
        ctx.case(("const", name), {"const": name, "model": a, "code": b})
        if a != b:
            ctx.disagree("C07.constants", {"name": name, "model": a, "code": b})
    n = 20000 if ctx.thorough else 2000
    rng = ctx.rng
    # ---- Taus.__call__ : gamma, beta_tau, shower energy from the energy the real code sampled
    for ver in ("1", "2", "3"):
        for frac in (0.5, 1.0, float(rng.uniform(0.01, 1.0))):
            # the configuration is built the way users build it (validated constructor; from a dictionary); the fraction in
            # force must be the number that was configured
            import nuspacesim.config as cfgmod
            route = int(rng.integers(0, 3)) if frac != 1.0 else 1 + int(rng.integers(0, 2))
            if route == 0:
                cfg = nss.NssConfig()
                cfg.simulation.tau_shower.table_version = ver
                cfg.simulation.tau_shower.etau_frac = frac
            elif route == 1:
                cfg = nss.NssConfig(simulation=cfgmod.Simulation(tau_shower=cfgmod.Simulation.NuPyPropShower(etau_frac=frac, table_version=ver)))
            else:
                cfg = nss.NssConfig.model_validate({"simulation": {"tau_shower": {"id": "nupyprop", "etau_frac": frac, "table_version": ver}}})
            ctx.count(f"config_route_{('assign', 'constructor', 'dict')[route]}")
            if cfg.simulation.tau_shower.etau_frac != frac:
                ctx.violation("NssConfig", "etau_frac-not-the-configured-number", "the configuration holds a different shower-energy fraction than the one configured",
                              {"route": ("assign", "constructor", "dict")[route], "configured": frac, "held": float(cfg.simulation.tau_shower.etau_frac)})
            tau = taus_mod.Taus(cfg)
            betas = np.radians(rng.uniform(0.0, 42.0, n))
            loge = rng.uniform(6.0, 12.0, n)
            # boundary stream: table-edge angles (exactly the first/last node, 42 deg, 0) x table-edge and low energies
            gb = tau.tau_cdf_grid["beta_rad"]
            edge_b = [0.0, float(gb[0]), float(gb[-1]), float(np.radians(42.0)), float(np.radians(1.0)), float(np.nextafter(gb[-1], 0.0))]
            edge_e = [6.0, 6.25, 7.0, 9.0, 12.0]
            kb = 0
            for eb in edge_b:
                for ee in edge_e:
                    betas[kb], loge[kb] = eb, ee
                    kb += 1
            ctx.count("taus_boundary", kb)
            betas_before, loge_before = betas.copy(), loge.copy()
            tb, tl, te, se, pe = tau(betas, loge)
            if not (np.array_equal(betas, betas_before) and np.array_equal(loge, loge_before)):
                kbad = int(np.nonzero(betas != betas_before)[0][0]) if not np.array_equal(betas, betas_before) else -1
                ctx.violation("Taus.__call__", "mutates-input", "the tau stage modified the emergence-angle / energy array it was given (later stages then use the altered angles)",
                              {"version": ver, "index": kbad, "beta_before": float(betas_before[kbad]), "beta_after": float(betas[kbad])})
                betas, loge = betas_before.copy(), loge_before.copy()
            # the source as translated (Gen/Src/C07.lean) at Float next to the real call: arithmetic and sqrt only, so bit-identical
            srctie.compare(ctx, "C07", "tausCall", [betas, loge, np.full(n, frac), pe, te], [tb, tl, te, se, pe], rtol=1e-15)
            lines = [f"kin {f2h(e)} {f2h(frac)}" for e in te]
            out = run_driver(lines)
            for i, o in enumerate(out):
                g, b_, s = (h2f(x) for x in o)
                ctx.case(("kin", ver, round(float(np.log10(te[i])), 6)),
                         {"op": "Taus.__call__", "version": ver, "tauEnergy": float(te[i]), "tauLorentz": float(tl[i]),
                          "tauBeta": float(tb[i]), "showerEnergy": float(se[i])} if i < 1 else None)
                if not (close(g, tl[i]) and close(b_, tb[i]) and close(s, se[i])):
                    ctx.disagree("C07.kin", {"E": float(te[i]), "model": [g, b_, s], "code": [float(tl[i]), float(tb[i]), float(se[i])]})
                # property-level oracle on the REAL outputs
                case = {"version": ver, "etau_frac": frac, "beta": float(betas[i]), "log_e_nu": float(loge[i]),
                        "tauEnergy": float(te[i]), "tauLorentz": float(tl[i]), "tauBeta": float(tb[i]), "showerEnergy": float(se[i])}
                if not np.isfinite([tl[i], tb[i], se[i]]).all():
                    ctx.violation("Taus.__call__", "nonfinite", "non-finite kinematics", case)
                elif not (tl[i] >= 1.0):
                    ctx.violation("Taus.__call__", "gamma<1", "Lorentz factor below 1", case)
                elif not (0.0 < tb[i] <= 1.0):
                    ctx.violation("Taus.__call__", "speed-range", "tau speed outside (0,1]", case)
                elif not close(tl[i] * taus_mod.massTau, te[i], 1e-12):
                    ctx.violation("Taus.__call__", "gamma-formula", "gamma != E/m", case)
                elif not close(se[i] * 1e8, frac * te[i], 1e-12):
                    ctx.violation("Taus.__call__", "shower-energy", "shower energy != frac*E/1e8", case)
                elif not close(tb[i] ** 2 + 1.0 / tl[i] ** 2, 1.0, 1e-12):
                    ctx.violation("Taus.__call__", "speed-formula", "beta^2 + 1/gamma^2 != 1", case)
                elif te[i] < 1000.0 and betas[i] <= tau.tau_cdf_grid["beta_rad"][-1]:
                    # C18.shipped_min_tau_energy_v*: impossible for the modelled sampler on the shipped tables
                    ctx.disagree("C07.min-energy-theorem", {**case, "theorem": "C18.shipped_min_tau_energy_v" + ver})
            ctx.count(f"taus_v{ver}", n)
            if frac == 0.5:
                batch_compositions(ctx, tau, taus_mod, ver, frac, rng)
            # a copied / pickled Taus object (what a worker process receives) goes by the same configuration as the original
            if ver == "3":
                import copy
                import pickle
                cfg.simulation.tau_shower.etau_frac = 0.3
                for how, mk in (("pickle round trip", lambda o: pickle.loads(pickle.dumps(o))), ("copy.deepcopy", copy.deepcopy)):
                    ctx.case(("copied-taus", how, frac)); ctx.count("copied_taus_objects")
                    try:
                        t2 = mk(tau)
                        b2 = np.radians(rng.uniform(0.5, 41.0, 16)); l2 = rng.uniform(6.0, 12.0, 16)
                        _, _, te2, se2, _ = t2(b2, l2)
                    except Exception as ex:  # noqa
                        ctx.notes.append(f"{how} of a Taus object raised {type(ex).__name__} (not required by the property)")
                        continue
                    if not np.allclose(se2 * 1e8, 0.3 * te2, rtol=1e-12, atol=0):
                        ctx.violation("Taus.__call__", "shower-energy-after-copying-the-object",
                                      f"after a {how} of a Taus object whose configuration was set to etau_frac = 0.3 by assignment, the shower energy is not 0.3 of the tau energy",
                                      {"how": how, "etau_frac": 0.3, "ratio": float(se2[0] * 1e8 / te2[0])})
                        break
                cfg.simulation.tau_shower.etau_frac = frac
            # history on ONE object: the fraction in force is the one configured when the call is made
            for frac2 in (1.0, 0.25, float(rng.uniform(0.01, 1.0)), frac):
                cfg.simulation.tau_shower.etau_frac = frac2
                b2 = np.radians(rng.uniform(0.5, 41.0, 16)); l2 = rng.uniform(6.0, 12.0, 16)
                _, tl2, te2, se2, _ = tau(b2, l2)
                ctx.case(("hist", ver, frac2), None)
                ctx.count("taus_history_calls")
                bad = np.nonzero(~np.isclose(se2 * 1e8, frac2 * te2, rtol=1e-12, atol=0))[0]
                if len(bad):
                    k_ = int(bad[0])
                    ctx.violation("Taus.__call__", "shower-energy-after-reconfiguration",
                                  "shower energy is not the currently configured fraction of the tau energy on a reused Taus object",
                                  {"version": ver, "etau_frac_sequence_so_far": [frac, frac2], "etau_frac": frac2, "tauEnergy": float(te2[k_]),
                                   "showerEnergy": float(se2[k_]), "ratio": float(se2[k_] * 1e8 / te2[k_])})
                    break
    lowest_energies(ctx)
    # ---- optional plots are inert (Taus.__call__ draws its own deviates: re-seeded before each call)
    import plotinert
    cfg_p = nss.NssConfig()
    tau_p = taus_mod.Taus(cfg_p)
    b_p = np.radians(rng.uniform(0.5, 41.0, 48)); l_p = rng.uniform(6.0, 12.0, 48)

    def call_taus(plot):
        np.random.seed(1234)
        b_, l_ = b_p.copy(), l_p.copy()
        r = tau_p(b_, l_) if plot is None else tau_p(b_, l_, plot=plot)
        return (*r, b_, l_)
    plotinert.check(ctx, "Taus.__call__", call_taus, {"events": 48}, spellings=("list", "name"))
    import logmode   # … and so is the logging configuration of the calling program
    logmode.check(ctx, "Taus.__call__", lambda: call_taus(None), {"events": 48})
    # ---- EAS.altDec with explicit u
    cfg = nss.NssConfig()
    eas = EAS(cfg)
    m = 4 * n
    beta = np.radians(rng.uniform(0.0, 42.0, m))
    E = 10 ** rng.uniform(np.log10(3000.0), 12.0, m)
    u = rng.uniform(0.0, 1.0, m)
    u[u == 0.0] = 0.5
    one = np.float64(1.0)
    bvals = [0.0, np.radians(42.0), np.pi / 2, np.radians(1.0)]
    uvals = [5e-324, 2.2250738585072014e-308, 1e-300, 1e-16, 0.5, float(np.nextafter(one, 0.0)), 1.0]
    evals = [3000.0, 1e5, 1e12, float(np.nextafter(taus_mod.massTau, 2.0)), 2.0]
    k = 0
    for b_ in bvals:
        for u_ in uvals:
            for e_ in evals:
                beta[k], u[k], E[k] = b_, u_, e_
                k += 1
    ctx.count("altdec_boundary", k)
    ctx.count("altdec_structured", m - k)
    g = E / taus_mod.massTau
    bt = np.sqrt(1.0 - np.reciprocal(g ** 2))
    beta0, bt0, g0, u0 = beta.copy(), bt.copy(), g.copy(), u.copy()
    alt, ln = eas.altDec(beta, bt, g, u)
    if not (np.array_equal(beta, beta0) and np.array_equal(bt, bt0) and np.array_equal(g, g0) and np.array_equal(u, u0)):
        ctx.violation("EAS.altDec", "mutates-input", "input array modified", {})
    out = run_driver([f"altdec {f2h(beta[i])} {f2h(bt[i])} {f2h(g[i])} {f2h(u[i])}" for i in range(m)])
    Rk = R_earth.to(units.km).value
    srctie.compare(ctx, "C07", "altDec", [beta, bt, g, u], [alt, ln], rtol=1e-12, atol=1e-9 * Rk)
    for i, o in enumerate(out):
        a_m, l_m = h2f(o[0]), h2f(o[1])
        ctx.case(("altdec", float(beta[i]), float(u[i]), float(E[i])),
                 {"op": "EAS.altDec", "beta": float(beta[i]), "tauBeta": float(bt[i]), "tauLorentz": float(g[i]), "u": float(u[i]),
                  "altDec": float(alt[i]), "lenDec": float(ln[i])} if i in (0, k) else None)
        # altitude: sqrt(R^2+...) - R cancels; compare on the absolute scale of R
        if not (close(l_m, ln[i], 1e-12) and abs(a_m - alt[i]) <= 1e-9 * (Rk + abs(ln[i]))):
            ctx.disagree("C07.altDec", {"beta": float(beta[i]), "g": float(g[i]), "u": float(u[i]),
                                        "model": [a_m, l_m], "code": [float(alt[i]), float(ln[i])]})
        case = {"beta": float(beta[i]), "tauBeta": float(bt[i]), "tauLorentz": float(g[i]), "u": float(u[i]),
                "altDec": float(alt[i]), "lenDec": float(ln[i])}
        if not (np.isfinite(alt[i]) and np.isfinite(ln[i])):
            ctx.violation("EAS.altDec", "nonfinite", "non-finite decay point", case)
        elif ln[i] < 0:
            ctx.violation("EAS.altDec", "len<0", "negative decay length", case)
        elif alt[i] < -1e-9:
            ctx.violation("EAS.altDec", "alt<0", "negative decay altitude", case)
        else:
            # geometric consistency with explicit vectors (independent formula)
            x = ln[i] * np.cos(beta[i]); y = Rk + ln[i] * np.sin(beta[i])
            ref = np.hypot(x, y) - Rk
            if abs(ref - alt[i]) > 1e-9 * (Rk + abs(ln[i])):
                ctx.violation("EAS.altDec", "alt-geometry", "altitude is not that of the point on the line", case)
            lam = g[i] * bt[i] * 299792458.0 * 2.903e-13 * 1e-3
            if not close(ln[i], -lam * np.log(u[i]), 1e-12, 1e-300):
                ctx.violation("EAS.altDec", "len-formula", "decay length != -gamma beta c tau0 ln u", case)
    # one deviate for the whole batch (a scalar, or an array of one element): it is the u of every event, not replaced by fresh draws
    for u_s in (1.0, 0.5, float(np.exp(-1.0)), 1e-3):
        for form, uarg in (("python float", u_s), ("array of one element", np.array([u_s]))):
            ctx.case(("scalar-u", u_s, form), None); ctx.count("scalar_u_calls")
            try:
                a_s, l_s = eas.altDec(beta[:32].copy(), bt[:32].copy(), g[:32].copy(), uarg)
                lam_s = g[:32] * bt[:32] * 299792458.0 * 2.903e-13 * 1e-3
                l_s = np.broadcast_to(np.asarray(l_s, dtype=np.float64), (32,))
                if not np.allclose(l_s, -lam_s * np.log(u_s), rtol=1e-12, atol=1e-300):
                    k_ = int(np.argmax(np.abs(l_s + lam_s * np.log(u_s))))
                    ctx.violation("EAS.altDec", "len-formula", f"with u = {u_s!r} given as a {form} for a batch of 32 events the decay length is not -gamma beta c tau0 ln u",
                                  {"u": u_s, "given_as": form, "tauLorentz": float(g[k_]), "tauBeta": float(bt[k_]), "lenDec": float(l_s[k_]), "expected": float(-lam_s[k_] * np.log(u_s))})
                    break
            except Exception as ex:  # noqa
                ctx.notes.append(f"EAS.altDec rejects u given as a {form}: {type(ex).__name__} (not required by the property)")
    # the emergence angle given as an astropy quantity (degrees, arc minutes, radians): the same angle gives the same decay point
    from astropy import units as aunits
    kq = min(m, 64)
    ref_a, ref_l = eas.altDec(beta[:kq].copy(), bt[:kq].copy(), g[:kq].copy(), u[:kq].copy())
    for unit_ in (aunits.rad, aunits.deg, aunits.arcmin):
        ctx.case(("angle-unit", str(unit_)), None); ctx.count("angle_as_quantity")
        try:
            qa, ql = eas.altDec((beta[:kq] * aunits.rad).to(unit_), bt[:kq].copy(), g[:kq].copy(), u[:kq].copy())
            qa = np.asarray(getattr(qa, "value", qa), dtype=np.float64); ql = np.asarray(getattr(ql, "value", ql), dtype=np.float64)
            if not (np.allclose(ql, ref_l, rtol=1e-12, atol=0, equal_nan=True) and np.all(np.abs(qa - ref_a) <= 1e-9 * (Rk + np.abs(ref_l)) + 1e-300)):
                k_ = int(np.nanargmax(np.abs(qa - ref_a)))
                ctx.violation("EAS.altDec", "angle-unit-ignored", f"the emergence angle given in {unit_} does not give the decay altitude of the same angle in radians",
                              {"unit": str(unit_), "beta_rad": float(beta[k_]), "beta_in_unit": float((beta[k_] * aunits.rad).to_value(unit_)), "lenDec": float(ref_l[k_]),
                               "altDec_radians": float(ref_a[k_]), "altDec_quantity": float(qa[k_])})
                break
        except Exception as ex:  # noqa
            ctx.notes.append(f"EAS.altDec rejects an angle given in {unit_}: {type(ex).__name__} (not required by the property)")
    # metamorphic on the real code: decreasing in u, increasing in beta (paired runs)
    mm = min(m, 4000)
    u2 = np.minimum(u[:mm] * (1 + rng.uniform(0, 1, mm)), 1.0)
    alt2, ln2 = eas.altDec(beta[:mm], bt[:mm], g[:mm], u2)
    bad = np.nonzero(ln2 > ln[:mm] * (1 + 1e-12))[0]
    for i in bad[:3]:
        ctx.violation("EAS.altDec", "len-not-decreasing-in-u", "decay length increases with u",
                      {"u": float(u[i]), "u2": float(u2[i]), "len": float(ln[i]), "len2": float(ln2[i])})
    beta3 = np.minimum(beta[:mm] + rng.uniform(0, 0.3, mm), np.pi / 2)
    alt3, ln3 = eas.altDec(beta3, bt[:mm], g[:mm], u[:mm])
    bad = np.nonzero(alt3 < alt[:mm] - 1e-9 * (Rk + ln[:mm]))[0]
    for i in bad[:3]:
        ctx.violation("EAS.altDec", "alt-not-increasing-in-beta", "altitude decreases with emergence angle",
                      {"beta": float(beta[i]), "beta2": float(beta3[i]), "alt": float(alt[i]), "alt2": float(alt3[i])})
    ctx.case(n=2 * mm)
    ctx.traces += 9 + 1
    import libtie
    libtie.c07(ctx)


def lowest_energies(ctx: Ctx):
    """Directed: the lowest tau energies the real sampler can return — every (energy, angle) node and cell centre of every
    shipped table, deviates u from 1e-12 up — must stay above the tau mass (gamma >= 1, real speed)."""
    nss, EAS, taus_mod = _objects()
    for ver in ("1", "2", "3"):
        cfg = nss.NssConfig()
        cfg.simulation.tau_shower.table_version = ver
        tau = taus_mod.Taus(cfg)
        gE = np.asarray(tau.tau_cdf_grid["log_e_nu"], dtype=np.float64)
        gB = np.asarray(tau.tau_cdf_grid["beta_rad"], dtype=np.float64)
        Es = np.unique(np.concatenate([gE, 0.5 * (gE[1:] + gE[:-1])]))
        Bs = np.unique(np.concatenate([gB, 0.5 * (gB[1:] + gB[:-1])]))
        EE, BB = (a.ravel() for a in np.meshgrid(Es, Bs, indexing="ij"))
        for u_ in (1e-12, 1e-9, 1e-6, 1e-4, 1e-3, 1e-2):
            te = tau.tau_energy(BB.copy(), EE.copy(), np.full(EE.shape, u_))
            ctx.case(n=len(EE))
            ctx.count("lowest_energy_probes", len(EE))
            bad = np.nonzero(~(te > taus_mod.massTau))[0]
            for k_ in bad[:3]:
                ctx.violation("Taus.tau_energy", "energy-not-above-tau-mass",
                              "a tau energy reachable from a shipped table is not above the tau mass (gamma < 1, speed not real)",
                              {"version": ver, "log_e_nu": float(EE[k_]), "beta_rad": float(BB[k_]), "u": u_, "tauEnergy": float(te[k_]),
                               "tauLorentz": float(te[k_] / taus_mod.massTau)})
            if len(bad):
                break


def search(ctx: Ctx):
    """Failing-input search: the oracle clauses in run() already ran on the real code; widen the streams."""
    if ctx.tier != "thorough" and not ctx.violations:
        ctx.tier = "thorough"
        run(ctx)


if __name__ == "__main__":
    sys.exit(main_for("C07", sys.modules[__name__]))
