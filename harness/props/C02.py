"""C02 — thrown trajectories are consistent 3-D objects: correspondence + property oracle on the real RegionGeom."""
import sys
import warnings

import numpy as np

warnings.filterwarnings("ignore")
from common import *  # noqa
from geo_common import *  # noqa

RULE = ("cases = (detector altitude/lat/long, limb angle, cone, azimuth range, u in [0,1]^4) through the real "
        "RegionGeom.__init__/throw and (kept event, s) through the real find_lat_long_along_traj; streams: structured "
        "(random configurations and interior u), boundary (every combination of {0, 5e-324, 2^-53, 1/2, 1-2^-53, 1}^4 "
        "[quick: {0, 2^-53, 1/2, 1}^4] x 40 altitudes from 0.1 to 36000 km; detector at the poles, the date line, "
        "lat = +-pi/2), malformed (wrong shape, None); a case is non-trivial when its configuration and its "
        "(face pattern of u | rounded u) are distinct; the distinct count is over (stream, altitude, face pattern)")
ASSUMPTIONS = [
    "'exact inverse-CDF image' is tested in CDF space: |G(L) - (G(Lmax) - u4 (G(Lmax) - G(Lmin)))| <= 1e-9 G(Lmax). Near "
    "u4 = 0 the map u4 -> L has unbounded slope (L ~ Lmax - c sqrt(u4)), so L itself is only determined to ~1e-8 relative "
    "there (the repaired code returns L(0) = Lmax (1 - 1e-8) at some altitudes, i.e. the exact image of u4 + O(1e-16))",
    "angles obtained through arccos/arcsin are compared with the conditioning of the inverse function added to the "
    "tolerance (4e-16/sqrt(1-x^2)); longitudes and azimuths are compared on the circle",
    "the position oracle reconstructs the spot from the reported latS/longS (degrees); its tolerance includes the "
    "round-off amplification R^2*eps/L of that reconstruction at very low altitudes",
    "find_lat_long_along_traj reports only latitude and longitude; the altitude clause is covered by the theorem "
    "C02.along_traj about the model plus the correspondence of the reported coordinates",
]
TRUSTED_EXTRA = ["numpy broadcasting of throw() over the event axis is modelled as a map over single events"]

def regen():
    import srctie
    return srctie.regen("C02")


def src_throw_inputs(g, u):
    """inputs of the translated `RegionGeom.throw` (harness/srcspecs/C02.py): u1..u4 and the constants __init__ left on the object"""
    return [u[0], u[1], u[2], u[3], g.sinOfMaxThetaTrSubV, g.maxPhiS, g.minPhiS, g.core_alt, g.earth_rad_2, g.maxLOSpathLen,
            g.minLOSpathLen, g.earth_radius, g.detLat, g.detLong]


def oracle_event(ctx, g, u, row, mask, site="RegionGeom.throw"):
    """property-level predicate on the REAL code's outputs for one event; True when everything holds"""
    (thTr, cTrV, phTr, phS, L, thS, cNV, cTrN, thTrN, beta, latS, longS, elev, azi) = row
    R, D = g.earth_radius, g.core_alt
    Lmin, Lmax = g.minLOSpathLen, g.maxLOSpathLen
    case = {"altitude": g._verif_cfg[0], "lat": g._verif_cfg[1], "long": g._verif_cfg[2], "limb": g._verif_cfg[3],
            "cone": g._verif_cfg[4], "azimuth": g._verif_cfg[5], "u": [float(x) for x in u], "u_hex": fh(u),
            "losPathLen": float(L), "Lmin": float(Lmin), "Lmax": float(Lmax), "betaTrSubN": float(beta),
            "latS": float(latS), "longS": float(longS), "costhetaTrSubN": float(cTrN), "event_mask": bool(mask)}
    pat = face_pattern(u)
    cls_sfx = ("u4=0" if u[3] == 0.0 else "u4=1" if u[3] == 1.0 else "face" if set(pat) - {"m"} else "interior")
    ok = True

    def bad(cls, what):
        nonlocal ok
        ok = False
        ctx.violation(site, f"{cls}:{cls_sfx}", what, case)

    if not np.isfinite(L):
        bad("L-nonfinite", "line-of-sight length is not finite")
        return False
    if not (Lmin * (1 - 1e-12) <= L <= Lmax * (1 + 1e-12)):
        if L < 0 and mask:
            bad("L-negative-and-kept", f"negative line-of-sight length {float(L)!r} passes the event mask "
                f"([Lmin, Lmax] = [{float(Lmin)!r}, {float(Lmax)!r}])")
        else:
            bad("L-out-of-range", f"line-of-sight length {float(L)!r} outside [Lmin, Lmax] = [{float(Lmin)!r}, {float(Lmax)!r}]"
                + (f"; betaTrSubN = {float(beta)!r}" if not np.isfinite(beta) else ""))
        return False
    if not np.isfinite(row).all():
        bad("nonfinite", "non-finite per-event quantity: " + ",".join(f for f, x in zip(EV_FIELDS, row) if not np.isfinite(x)))
        return False
    # exact inverse-CDF image, in CDF space
    A = D * D - R * R
    G = lambda x: 3 * A * x - x ** 3
    tgt = G(Lmax) - u[3] * (G(Lmax) - G(Lmin))
    if abs(G(L) - tgt) > 1e-9 * G(Lmax):
        bad("inverse-cdf", f"G(L) differs from G(Lmax)-u4(G(Lmax)-G(Lmin)) by {abs(G(L)-tgt)/G(Lmax):.3g} (relative)")
    # spot on the surface at distance L (explicit ECEF vectors)
    if not (-90.0 <= latS <= 90.0 and 0.0 <= longS <= 360.0):
        bad("lat-long-range", "latitude outside [-90,90] or longitude outside [0,360]")
    nd = unit(g.detLat, g.detLong)
    ns = unit(np.radians(latS), np.radians(longS))
    dv = D * nd - R * ns
    dist = float(np.linalg.norm(dv))
    if abs(dist - L) > 1e-9 * L + 1e-15 * D * D / L:
        bad("spot-distance", f"|D n_det - R n_spot| = {dist!r} but losPathLen = {float(L)!r}")
    # emergence angle from explicit vectors
    v = dv / dist
    nv = float(ns @ v)
    perp = ns - nv * v
    pn = float(np.linalg.norm(perp))
    amp = 1e-9 + 4e-15 * (D / L) ** 2
    if pn > 1e-7:
        e1 = perp / pn
        e2 = np.cross(v, e1)
        t = np.cos(thTr) * v + np.sin(thTr) * (-np.cos(phTr) * e1 + np.sin(phTr) * e2)
        tn = float(t @ ns)
        sb = np.sin(np.radians(beta))
        if abs(sb - tn) > amp + 1e-7 * abs(np.sin(thTr)) * (pn < 1e-3):
            bad("beta-vs-vectors", f"sin(betaTrSubN) = {float(sb)!r} but t.n from explicit vectors = {tn!r}")
        # kept iff upward-going with emergence angle below 42 deg
        s42 = np.sin(np.radians(42.0))
        if min(abs(tn), abs(tn - s42)) < 10 * amp:
            ctx.near_boundary_skipped += 1
        elif bool(mask) != (tn >= 0 and tn < s42):
            bad("mask", f"event_mask = {bool(mask)} but t.n = {tn!r} (kept iff 0 <= t.n < sin 42deg)")
    if bool(mask) != bool(cTrN >= 0 and beta < 42):
        bad("mask-own", "event_mask is not (costhetaTrSubN >= 0) & (betaTrSubN < 42) of the reported values")
    return ok


def check_batch(ctx, g, u, stream):
    """throw the batch on the real code; functional + relational correspondence; oracle; along-trajectory check"""
    u = np.ascontiguousarray(u, dtype=np.float64)
    n = u.shape[1]
    u0 = u.copy()
    g.throw(u)
    if not np.array_equal(u, u0):
        ctx.violation("RegionGeom.throw", "mutates-input", "throw modified the caller's random numbers", {})
    arr = ev_arrays(g)
    mask = np.asarray(g.event_mask, dtype=bool)
    ch = cfg_hex(g)
    lines = []
    for i in range(n):
        lines.append(f"geothrow {ch} {fh(u[:, i])}")
        lines.append(f"georesid {ch} {fh(u[:, i])} {ev_hex(arr[i], mask[i])} {f2h(0.0)}")
    out = run_driver_sharded(lines)
    R, D = g.earth_radius, g.core_alt
    good = np.zeros(n, dtype=bool)
    src_tol = np.full((n, len(EV_FIELDS)), np.inf)
    src_margin = np.ones(n, dtype=bool)
    for i in range(n):
        ui = u[:, i]
        pat = face_pattern(ui)
        key = (stream, g._verif_cfg[0], pat) if stream == "boundary" else (stream, g._verif_cfg[:3], tuple(np.round(ui, 6)))
        ctx.case(key, {"op": "RegionGeom.throw", "stream": stream, "altitude": g._verif_cfg[0], "u": ui.tolist(),
                       "losPathLen": float(arr[i, 4]), "betaTrSubN": float(arr[i, 9]), "event_mask": bool(mask[i])}
                 if (i == 0 and len(ctx.samples) < 4) else None)
        ctx.count(f"{stream}:mask={'kept' if mask[i] else 'dropped'}")
        if stream == "boundary":
            ctx.count("boundary:u4=" + pat[3])
        good[i] = oracle_event(ctx, g, ui, arr[i], mask[i])
        if not good[i]:
            continue
        # functional: model vs code
        mv, mm = parse_event(out[2 * i])
        tol = field_tolerances(g, ui, arr[i])
        src_tol[i] = [float(tol[f]) for f in EV_FIELDS]
        src_margin[i] = min(abs(arr[i, 7]), abs(arr[i, 9] - 42.0)) < 1e-9 + tol["betaTrSubN"]
        for j, f in enumerate(EV_FIELDS):
            a, b = mv[j], float(arr[i, j])
            if f == "longS":
                d = circ_diff(a, b, 360.0)
            elif f == "aziAngVSubN":
                d = circ_diff(a, b, 2 * np.pi)
            else:
                d = abs(a - b)
            if not (d <= tol[f]):
                ctx.disagree(f"C02.throw.{f}", {"altitude": g._verif_cfg[0], "cfg": list(g._verif_cfg), "u": ui.tolist(),
                                                "u_hex": fh(ui), "model": a, "code": b, "tol": float(tol[f])})
        margin = min(abs(arr[i, 7]), abs(arr[i, 9] - 42.0))
        if mm != bool(mask[i]):
            if margin < 1e-9 + tol["betaTrSubN"]:
                ctx.near_boundary_skipped += 1
            else:
                ctx.disagree("C02.throw.event_mask", {"cfg": list(g._verif_cfg), "u": ui.tolist(), "model": mm, "code": bool(mask[i])})
        # relational: residuals of the specification relations evaluated by the driver on the code's outputs
        res = [h2f(x) for x in out[2 * i + 1]]
        L, cNV, cTrN = arr[i, 4], arr[i, 6], arr[i, 7]
        sl = cond(cNV)
        # the plane geometry is rebuilt from thetaS = arccos(.): at low altitude its round-off is amplified by (D/L)^2
        amp = 1e-9 + 25 * sl + 4e-15 * (D / L) ** 2
        lim = [1e-12, 1e-12 * (1 + abs(arr[i, 2])), 1e-12 * (1 + abs(arr[i, 3])), 1e-9,
               2 * (1e-9 + 1e-15 * (D / L) ** 2), None,
               amp, (amp + 4e-16) * DEG / max(np.sqrt(max(1 - min(abs(cTrN), 1) ** 2, 1e-30)), 1e-15) + 1e-9]
        names = ["cdf-theta", "cdf-phiTr", "cdf-phiS", "cdf-L", "spot-distance", None, "costhetaTrSubN-vs-vectors", "beta-vs-vectors"]
        for nm, r, l in zip(names, res, lim):
            if nm is None:
                continue
            if np.isnan(r):
                ctx.count("relation-skipped-degenerate:" + nm)
            elif abs(r) > l:
                ctx.violation("RegionGeom.throw", "relation:" + nm, f"specification relation {nm} has residual {r:.3g} (limit {l:.3g})",
                              {"cfg": list(g._verif_cfg), "u": ui.tolist(), "u_hex": fh(ui), "residual": r})
    # ---- source tie: `RegionGeom.throw` as translated from the source (Gen/Src/C02.lean) at Float next to the real throw,
    # on the events whose real outputs passed the oracle, with the conditioning-aware tolerances of the model comparison
    import srctie
    gi = np.nonzero(good)[0]
    if len(gi):
        srctie.compare(ctx, "C02", "throw", src_throw_inputs(g, u[:, gi]), [arr[gi, j] for j in range(len(EV_FIELDS))] + [mask[gi]],
                       rtol=0.0, atol=[src_tol[gi, j] for j in range(len(EV_FIELDS))] + [0.0],
                       kinds=["α"] * len(EV_FIELDS) + ["Bool"],
                       periods=[360.0 if f == "longS" else 2 * np.pi if f == "aziAngVSubN" else None for f in EV_FIELDS] + [None],
                       bool_margin=[None] * len(EV_FIELDS) + [src_margin[gi]])
    # ---- positions along the kept trajectories
    kept = np.nonzero(mask)[0]
    if len(kept) == 0 or not good[kept].all():
        return
    lines = []
    results = []
    for s in S_VALUES:
        try:
            latP, lonP = g.find_lat_long_along_traj(s)
            latP = np.atleast_1d(np.asarray(latP, dtype=np.float64)); lonP = np.atleast_1d(np.asarray(lonP, dtype=np.float64))
            bad_shape = latP.shape != (len(kept),) or lonP.shape != (len(kept),)
            err = f"shapes {latP.shape}, {lonP.shape}"
        except Exception as ex:  # noqa
            bad_shape, err = True, f"{type(ex).__name__}: {str(ex)[:120]}"
        if bad_shape:
            ctx.violation("RegionGeom.find_lat_long_along_traj", "one-position-per-kept-trajectory",
                          f"positions along the trajectories do not describe the {len(kept)} kept events of the most recent throw ({err})",
                          {"cfg": list(g._verif_cfg), "s": s, "kept_events": int(len(kept)), "stream": stream, "u_hex_first_event": fh(u[:, kept[0]])})
            return
        results.append((latP, lonP))
        for k, i in enumerate(kept):
            lines.append(f"geoalong {f2h(R)} {ev_hex(arr[i], True)} {f2h(s)}")
            lines.append(f"geoalongres {f2h(R)} {f2h(arr[i,10])} {f2h(arr[i,11])} {f2h(arr[i,9])} {f2h(latP[k])} {f2h(lonP[k])} {f2h(s)}")
    # ---- one distance per trajectory, zeros and non-zeros mixed (some events still at their ground spot, others further along):
    # every event gets the position the same distance gave it when it was the distance of all events
    if len(kept) >= 2 and len(results) == len(S_VALUES):
        pick = np.arange(len(kept)) % len(S_VALUES)
        dist = np.array([S_VALUES[j] for j in pick], dtype=np.float64)
        ctx.count("along_traj_mixed_distances")
        try:
            latM, lonM = (np.asarray(x, dtype=np.float64) for x in g.find_lat_long_along_traj(dist))
            wantLat = np.array([results[j][0][k] for k, j in enumerate(pick)]); wantLon = np.array([results[j][1][k] for k, j in enumerate(pick)])
            okM = latM.shape == (len(kept),) and lonM.shape == (len(kept),) and np.allclose(latM, wantLat, rtol=0, atol=1e-12) \
                and np.allclose(np.cos(lonM - wantLon), 1.0, rtol=0, atol=1e-12)
            errM = None
        except Exception as ex:  # noqa: BLE001
            okM, errM = False, f"{type(ex).__name__}: {str(ex)[:120]}"
        if not okM:
            kb = 0 if errM or latM.shape != (len(kept),) else int(np.nonzero(~(np.isclose(latM, wantLat, rtol=0, atol=1e-12) & np.isclose(np.cos(lonM - wantLon), 1.0, rtol=0, atol=1e-12)))[0][0])
            ctx.violation("RegionGeom.find_lat_long_along_traj", "position-depends-on-the-other-events-distances",
                          errM or "with one distance per trajectory (zeros and non-zeros mixed) an event is not where the same distance puts it when all events share it",
                          {"cfg": list(g._verif_cfg), "stream": stream, "distances_km": dist[:12].tolist(), "event": int(kb),
                           "distance_of_event_km": float(dist[kb]), "u_hex_event": fh(u[:, kept[kb]])})
    out = run_driver_sharded(lines)
    # source tie: `find_lat_long_along_traj` as translated from the source, on the kept events' own attributes
    for si, s in enumerate(S_VALUES):
        latP, lonP = results[si]
        ak = arr[kept]
        clat = np.maximum(np.cos(latP), 1e-300)
        srctie.compare(ctx, "C02", "alongTraj", [np.float64(s), np.float64(R), ak[:, 0], ak[:, 2], ak[:, 10], ak[:, 11], ak[:, 12], ak[:, 13],
                                                 np.ones(len(kept), dtype=bool)], [latP, lonP], rtol=0.0,
                       atol=[1e-9 * np.abs(latP) + 1e-12 + cond(np.sin(latP)), 1e-10 + 1e-14 / clat], periods=[None, 2 * np.pi])
    p = 0
    for si, s in enumerate(S_VALUES):
        latP, lonP = results[si]
        latS = np.radians(arr[kept, 10]); lonS = np.radians(arr[kept, 11]); beta = np.radians(arr[kept, 9])
        off = central_angle(latS, lonS, latP, lonP)
        exp = np.arctan2(s * np.cos(beta), R + s * np.sin(beta))
        for k, i in enumerate(kept):
            ctx.case(("along", stream, g._verif_cfg[0], s, face_pattern(u[:, i]) if stream == "boundary" else tuple(np.round(u[:, i], 6))))
            ctx.count(f"along:s={s:g}")
            case = {"cfg": list(g._verif_cfg), "u": u[:, i].tolist(), "u_hex": fh(u[:, i]), "s": s, "betaTrSubN": float(arr[i, 9]),
                    "latS": float(arr[i, 10]), "longS": float(arr[i, 11]), "latPath": float(latP[k]), "longPath": float(lonP[k]),
                    "ground_offset": float(off[k]), "expected_offset": float(exp[k])}
            # latitudes are reported through arcsin: near the poles they carry its conditioning 4e-16/cos(lat)
            tol_off = 1e-10 * exp[k] + 2e-13 + 2 * (cond(np.sin(latP[k])) + cond(np.sin(latS[k])))
            if not np.isfinite([latP[k], lonP[k]]).all():
                ctx.violation("RegionGeom.find_lat_long_along_traj", "nonfinite", "non-finite position along the trajectory", case)
            elif abs(off[k] - exp[k]) > tol_off:
                ctx.violation("RegionGeom.find_lat_long_along_traj", "ground-offset:s>0" if s > 0 else "ground-offset:s=0",
                              f"ground offset {float(off[k])!r} rad at s = {s} km, but atan2(s cos b, R + s sin b) = {float(exp[k])!r} "
                              f"(relative error {abs(off[k]-exp[k])/max(exp[k],1e-300):.3g})", case)
            m = [h2f(x) for x in out[p]]
            rr = [h2f(x) for x in out[p + 1]]
            p += 2
            clat = max(np.cos(latP[k]), 1e-300)
            if not (abs(m[0] - latP[k]) <= 1e-9 * abs(latP[k]) + 1e-12 + cond(np.sin(latP[k])) and
                    circ_diff(m[1], lonP[k], 2 * np.pi) <= 1e-10 + 1e-14 / clat):
                ctx.disagree("C02.find_lat_long_along_traj", {**case, "model": m[:2]})
            if abs(rr[0] - rr[1]) > tol_off and abs(off[k] - exp[k]) <= tol_off:
                ctx.disagree("C02.along-relation", {**case, "driver": rr})


def config_stream(ctx, n):
    """structured configurations: detector anywhere, incl. poles / date line / lat = +-pi/2"""
    rng = ctx.rng
    special = [(0.0, 0.0), (np.pi / 2, 0.0), (-np.pi / 2, 1.0), (0.3, np.pi), (0.3, -np.pi), (1.5, 3.0), (-1.2, -3.1),
               (float(np.nextafter(np.pi / 2, 0)), 2.0), (0.0, 2 * np.pi)]
    out = []
    for k in range(n):
        alt = float(10 ** rng.uniform(-1, np.log10(36000.0)))
        lat, lon = special[k] if k < len(special) else (float(rng.uniform(-np.pi / 2, np.pi / 2)), float(rng.uniform(-np.pi, np.pi)))
        ah = horizon_nadir(alt)
        limb = float(rng.uniform(0.01, 0.95) * min(ah, np.radians(25.0)))
        cone = float(np.radians(rng.choice([0.5, 1.5, 3.0, 10.0, 30.0, 80.0])))
        azi = float(np.radians(rng.choice([10.0, 90.0, 360.0])))
        out.append((alt, lat, lon, limb, cone, azi))
    return out


def run(ctx: Ctx):
    rng = ctx.rng
    one = np.float64(1.0)
    # ---- constants of __init__ : model vs code, and their defining relations
    ncfg = 60 if ctx.thorough else 24
    cfgs = config_stream(ctx, ncfg)
    for c in cfgs:
        g = make_geom(*c)
        m = dict(zip(CONST_FIELDS, [h2f(x) for x in run_driver([f"geoinit {cfg_hex(g)}"])[0]]))
        code = {"R": g.earth_radius, "R2": g.earth_rad_2, "D": g.core_alt, "Lmin": g.minLOSpathLen, "Lmax": g.maxLOSpathLen,
                "sinMax": g.sinOfMaxThetaTrSubV, "maxPhiS": g.maxPhiS, "minPhiS": g.minPhiS, "mcnorm": g.mcnorm}
        ctx.case(("init", c[0]), {"op": "RegionGeom.__init__", "cfg": list(c), "Lmin": float(g.minLOSpathLen), "Lmax": float(g.maxLOSpathLen)} if len(ctx.samples) < 1 else None)
        for k_, v_ in code.items():
            if not close(m[k_], v_, 1e-11 if k_ != "mcnorm" else 1e-9):
                ctx.disagree("C02.init." + k_, {"cfg": list(c), "model": m[k_], "code": float(v_)})
        # property-level: Lmin is the distance to the near intersection at nadir angle alpha_hor - limb; Lmax the tangent length
        R, D = g.earth_radius, g.core_alt
        amin = np.arcsin(R / D) - c[3]
        near = D * np.cos(amin) - np.sqrt(max(R * R - (D * np.sin(amin)) ** 2, 0.0))
        if not (close(g.maxLOSpathLen, np.sqrt((D - R) * (D + R)), 1e-9) and abs(g.minLOSpathLen - near) <= 1e-7 * near
                and 0 < g.minLOSpathLen <= g.maxLOSpathLen):
            ctx.violation("RegionGeom.__init__", "los-range", "Lmin/Lmax are not the near-intersection / tangent lengths",
                          {"cfg": list(c), "Lmin": float(g.minLOSpathLen), "Lmax": float(g.maxLOSpathLen), "expected": [float(near), float(np.sqrt((D-R)*(D+R)))]})
    # ---- optional plots are inert: the tuple __call__ returns (angles, nadir angles, path lengths; row i = trajectory i) and
    # the positions along the trajectories are the same whether or not the geometry plot is requested
    import plotinert
    for c in cfgs[:3]:
        u_p = rng.random((4, 64))

        def call(plot, c=c, u_p=u_p):
            g_ = make_geom(*c)
            r = g_(u_p.copy()) if plot is None else g_(u_p.copy(), plot=plot)
            lat, lon = g_.find_lat_long_along_traj(np.full(len(r[0]), 5.0))
            return (*r, np.asarray(lat), np.asarray(lon), np.asarray(g_.event_mask))
        plotinert.check(ctx, "RegionGeom.__call__", call, {"cfg": list(c), "events": 64}, spellings=("list", "name"))
        import logmode   # … and so is the logging configuration of the calling program
        logmode.check(ctx, "RegionGeom.__call__", lambda: call(None), {"cfg": list(c), "events": 64})
    # ---- what the caller does with the arrays it received must not reach the object: small batches in which every event is
    # kept (and larger ones), results converted in place by the caller (km -> m, rad -> deg), then the positions along the
    # trajectories asked again: they must be what they were
    for c in cfgs[:4]:
        for nb in (1, 3, 12, 200):
            g_ = make_geom(*c)
            u_a = rng.uniform(0.2, 0.8, (4, nb))
            res = g_(u_a.copy())
            kept = int(np.count_nonzero(g_.event_mask))
            if kept == 0:
                continue
            dist = np.full(kept, 25.0)
            p0 = tuple(np.array(x, copy=True) for x in g_.find_lat_long_along_traj(dist))
            state0 = {k_: np.array(getattr(g_, k_), copy=True) for k_ in ("thetaTrSubV", "losPathLen", "betaTrSubN", "thetaS", "phiS")}
            for arr in res:
                if isinstance(arr, np.ndarray) and arr.flags.writeable:
                    arr *= 1000.0
            u_a *= 0.5
            p1 = g_.find_lat_long_along_traj(dist)
            ctx.case(("alias", c[0], nb), None)
            ctx.count("caller_edits_results_in_place" + (":all-kept" if kept == nb else ""))
            changed = [k_ for k_, v_ in state0.items() if not np.array_equal(v_, getattr(g_, k_), equal_nan=True)]
            if changed or not all(np.array_equal(a, b, equal_nan=True) for a, b in zip(p0, p1)):
                ctx.violation("RegionGeom.__call__", "returned-arrays-alias-the-object",
                              "after the caller converts the arrays it received in place, the object's geometry (and the positions along the trajectories) change",
                              {"cfg": list(c), "batch": nb, "kept": kept, "attributes_changed": changed,
                               "lat_before": float(p0[0][0]), "lat_after": float(np.asarray(p1[0])[0])})
                break
    # ---- the distance along the trajectory given as whole kilometres in an integer type (Python int, np.arange, int32): the
    # same numbers must give the same positions as their float64 copies
    for c in cfgs[:3]:
        g_ = make_geom(*c)
        g_.throw(rng.uniform(0.05, 0.95, (4, 40)))
        kept = int(np.count_nonzero(g_.event_mask))
        if not kept:
            continue
        base = np.arange(kept) % 7 * 15 + 5
        ref = tuple(np.asarray(x, dtype=np.float64) for x in g_.find_lat_long_along_traj(base.astype(np.float64)))
        forms = {"int64": base.astype(np.int64), "int32": base.astype(np.int32), "float32": base.astype(np.float32)}
        for nm, d_ in forms.items():
            ctx.case(("dist-dtype", c[0], nm), None)
            ctx.count("distance_dtype_" + nm)
            try:
                got = tuple(np.asarray(x, dtype=np.float64) for x in g_.find_lat_long_along_traj(d_))
                bad = not all(a.shape == b.shape and np.allclose(a, b, rtol=0, atol=1e-9) for a, b in zip(ref, got))
                err = None
            except Exception as ex:  # noqa
                bad, err = True, f"{type(ex).__name__}: {str(ex)[:100]}"
            if bad:
                k_ = int(np.argmax(np.abs(ref[0] - got[0]))) if err is None and ref[0].shape == got[0].shape else -1
                ctx.violation("RegionGeom.find_lat_long_along_traj", "depends-on-the-dtype-of-the-distances",
                              f"distances given as {nm} holding the same whole numbers give other positions than their float64 copies" + (f" ({err})" if err else ""),
                              {"cfg": list(c), "dtype": nm, "distance_km": float(base[k_]) if k_ >= 0 else None,
                               "lat_float64": float(ref[0][k_]) if k_ >= 0 else None, "lat_other": float(got[0][k_]) if k_ >= 0 else None})
                break
        scal = g_.find_lat_long_along_traj(100)
        scalf = g_.find_lat_long_along_traj(100.0)
        if not all(np.allclose(np.asarray(a, dtype=np.float64), np.asarray(b, dtype=np.float64), rtol=0, atol=1e-9) for a, b in zip(scal, scalf)):
            ctx.violation("RegionGeom.find_lat_long_along_traj", "depends-on-the-dtype-of-the-distances",
                          "the distance 100 (Python int) gives other positions than 100.0", {"cfg": list(c), "dtype": "python int"})
    # ---- the same hypercube points in another memory layout (Fortran order, the transposed view of an (N,4) array as quasi-random
    # samplers return it, reversed strides): event j is built from column j of u whatever the strides are
    for c in cfgs[:3]:
        g_ = make_geom(*c)
        u_c = np.ascontiguousarray(rng.random((4, 37)))
        g_.throw(u_c.copy())
        ref_ev, ref_mask = ev_arrays(g_).copy(), np.asarray(g_.event_mask).copy()
        nt = np.ascontiguousarray(u_c.T)
        layouts = {"fortran-ordered copy": np.asfortranarray(u_c), "transposed view of an (N,4) array": nt.T,
                   "reversed twice (negative strides)": u_c[:, ::-1][:, ::-1], "every other column of a wider array": np.repeat(u_c, 2, axis=1)[:, ::2]}
        for nm_, ul in layouts.items():
            ctx.case(("layout", c[0], nm_), None)
            ctx.count("memory_layouts")
            assert np.array_equal(ul, u_c)
            try:
                g_.throw(ul)
                same_ = np.array_equal(ev_arrays(g_), ref_ev, equal_nan=True) and np.array_equal(np.asarray(g_.event_mask), ref_mask)
                err = None
            except Exception as ex:  # noqa
                same_, err = False, f"{type(ex).__name__}: {str(ex)[:100]}"
            if not same_:
                ctx.violation("RegionGeom.throw", "depends-on-the-memory-layout-of-u",
                              f"the same random numbers given as a {nm_} give other events than the C-ordered array" + (f" ({err})" if err else ""),
                              {"cfg": list(c), "layout": nm_, "shape": list(ul.shape), "strides": list(ul.strides), "u_first_column": u_c[:, 0].tolist()})
                break
    # ---- structured stream
    nev = 400 if ctx.thorough else 120
    for c in cfgs:
        g = make_geom(*c)
        u = rng.random((4, nev))
        check_batch(ctx, g, u, "structured")
    # ---- every small batch size (a layout guess such as "shape[1] == 4" misfires for one size only): each event of the batch
    # must be the event of ITS column of u (the oracle in check_batch ties every output to its own input column)
    for c in cfgs[:2]:
        g = make_geom(*c)
        for nb_ in range(1, 10):
            check_batch(ctx, g, rng.random((4, nb_)), "small-batch")
    # ---- call histories on ONE object: throw, positions along the trajectories, throw again with other numbers (other
    # batch size, reversed order), positions again: every answer must describe the most recent throw
    for c in cfgs[: (8 if ctx.thorough else 3)]:
        g = make_geom(*c)
        ua = rng.random((4, 60))
        for u_h in (ua, rng.random((4, 35)), ua[:, ::-1].copy(), rng.random((4, 60))):
            check_batch(ctx, g, u_h, "history")
    # ---- boundary stream: faces, edges, corners of the cube x 40 altitudes
    tiny, eps = 5e-324, 2.0 ** -53
    levels = [0.0, tiny, eps, 0.5, float(1 - eps), 1.0] if ctx.thorough else [0.0, eps, 0.5, 1.0]
    cube = cube_boundary(levels)
    for alt in ALTITUDES_40:
        g = make_geom(alt, lat=0.4, lon=-2.0, limb=min(np.radians(7.0), 0.5 * horizon_nadir(alt)))
        check_batch(ctx, g, cube, "boundary")
    # a few other configurations on the faces: default configuration, poles, wide cone
    edge = cube_boundary([0.0, 0.5, 1.0])
    for c in [(525.0, 0.0, 0.0, 0.12217304763960307, 0.05235987755982989, 2 * np.pi), (33.0, np.pi / 2, 0.0, np.radians(5), np.radians(1.5), 2 * np.pi),
              (400.0, -np.pi / 2, 3.0, np.radians(7), np.radians(30), np.radians(90)), (1000.0, 0.2, np.pi, np.radians(1), np.radians(80), 2 * np.pi)]:
        g = make_geom(*c)
        check_batch(ctx, g, edge, "boundary")
    # ---- __call__ returns the kept events' (beta in radians, view angle, path length)
    g = make_geom(525.0)
    u = rng.random((4, 500))
    br, th, pl = g(u)
    ctx.case(("call",), None)
    if not (np.array_equal(br, np.radians(g.betaTrSubN[g.event_mask])) and np.array_equal(th, g.thetaTrSubV[g.event_mask])
            and np.array_equal(pl, g.losPathLen[g.event_mask])):
        ctx.violation("RegionGeom.__call__", "return-tuple", "returned tuple is not (radians(beta), theta, L) of the kept events", {})
    # ---- malformed stream: specific error kinds
    g = make_geom(525.0)
    for name, arg in [("shape(3,N)", np.zeros((3, 5))), ("shape(5,N)", np.zeros((5, 2))), ("None", None)]:
        try:
            g.throw(arg)
            kind = "no-error"
        except RuntimeError:
            kind = "RuntimeError"
        except Exception as e:  # noqa
            kind = type(e).__name__
        ctx.case(("malformed", name), None)
        ctx.count(f"malformed:{name}:{kind}")
        if kind != "RuntimeError":
            ctx.disagree("C02.malformed", {"input": name, "code": kind, "model": "RuntimeError"})
    ctx.traces += len(cfgs) + len(ALTITUDES_40) + 4


def search(ctx: Ctx):
    """failing-input search on the real code: the oracle already ran in run(); widen the streams"""
    if ctx.tier != "thorough":
        ctx.tier = "thorough"
        run(ctx)


if __name__ == "__main__":
    sys.exit(main_for("C02", sys.modules[__name__]))
