"""C18 — gridded lookup tables: loss-free files, exact slicing, sound shipped data."""
import os
import sys
import tempfile
import warnings

import numpy as np

warnings.filterwarnings("ignore")
from common import *  # noqa
from tabutil import *  # noqa

RULE = ("cases = (a) random labelled grids (1-4 dims; float64/float32/int32/int64; names with spaces, case, slashes, non-ASCII) through the "
        "real NssGrid.write/read in HDF5 and FITS; (b) grid_slice_interp at nodes, between nodes and at the axis ends vs the Lean model; "
        "(c) vec_1d_interp on random non-decreasing rows with plateaux and queries strictly inside the row range vs the Lean model and vs "
        "ordinary piecewise-linear interpolation; (d) every node of every shipped table checked with numpy against the samplers' "
        "preconditions (the same facts are Lean data theorems over the regenerated Gen/Tab*.lean); non-trivial = distinct grid/row/query")
ASSUMPTIONS = ["HDF5 (h5py) and FITS (astropy) are third-party: the read/write clause is explored on the real libraries, not proved",
               "'exactly at nodes' is read as: to within 4 ulp of the neighbouring values (scipy interp1d evaluates slope*(x-x_lo)+y_lo, which is exact at x_lo and rounded at x_hi)",
               "a format's loud rejection of a name/dtype it cannot represent (non-ASCII keyword value or bool in FITS, empty dataset name in HDF5) is counted as 'rejected', not as a violation; a silent difference after read-back is a violation"]
MASS_TAU = 1.77686


def regen():
    """the tables and the source tie: Props/C18.lean bridges the blend of `vec_1d_interp` (Gen/Src/C18) and imports the
    bridged Props/C04.lean, Props/C05.lean (Gen/Src/C04, Gen/Src/C05)"""
    import srctie
    out = regen_tables()
    import masktrans   # the Boolean / index-array half of vec_1d_interp, left_shift, right_shift (Gen/Src/C18Mask.lean)
    first_error = None
    for gen in [lambda p=p: srctie.regen(p) for p in ("C18", "C04", "C05")] + [masktrans.regen]:
        try:     # every generator runs, so that no module is left behind from an earlier tree when another one fails
            out.update(gen())
        except Exception as e:  # noqa: BLE001
            first_error = first_error or e
    if first_error is not None:
        raise first_error
    return out


def code_vocabulary():
    """names the code base itself uses for axes and columns: identifier-like string literals of the grid / table / sampler modules and
    of the table-building scripts shipped next to the data, and the axis names stored in the shipped table files.  A reader or writer
    that special-cases a name will most likely special-case one of these."""
    import ast
    import re
    root = REPO / "src" / "nuspacesim"
    words = set()
    files = [root / "utils" / f for f in ("grid.py", "cdf.py", "interp.py")] + [root / "simulation" / "taus" / "taus.py"] + sorted((root / "data").rglob("*.py"))
    for f in files:
        try:
            tree = ast.parse(f.read_text())
        except Exception:  # noqa: BLE001
            continue
        for node in ast.walk(tree):
            if isinstance(node, ast.Constant) and isinstance(node.value, str) and re.fullmatch(r"[A-Za-z_][A-Za-z0-9_]{1,24}", node.value):
                words.add(node.value)
    try:
        import h5py
        for f in sorted((root / "data").rglob("*.h*5")):
            with h5py.File(f, "r") as h:
                h.visit(lambda nm: words.add(nm.split("/")[-1]) if re.fullmatch(r"[A-Za-z_][A-Za-z0-9_]{1,24}", nm.split("/")[-1]) else None)
    except Exception:  # noqa: BLE001
        pass
    try:
        from astropy.io import fits as _fits
        for f in sorted((root / "data").rglob("*.fits")):
            if f.stat().st_size > 50e6:
                continue
            with _fits.open(f) as hl:
                for hdu in hl:
                    for key in ("EXTNAME",):
                        v = hdu.header.get(key)
                        if isinstance(v, str) and re.fullmatch(r"[A-Za-z_][A-Za-z0-9_]{1,24}", v):
                            words.add(v)
                    for c in (getattr(hdu, "columns", None) or []):
                        if re.fullmatch(r"[A-Za-z_][A-Za-z0-9_]{1,24}", c.name):
                            words.add(c.name)
    except Exception:  # noqa: BLE001
        pass
    return sorted(words)


def rand_grid(rng, fmt):
    ndim = int(rng.integers(1, 5))
    shape = tuple(int(x) for x in rng.integers(1, 6, ndim))
    dts = [np.float64, np.float32, np.int32, np.int64, np.int8, np.int16, np.uint8, np.uint16, np.uint32, np.uint64]
    dt = dts[int(rng.integers(0, len(dts)))]
    if np.issubdtype(dt, np.integer):
        info = np.iinfo(dt)
        data = rng.integers(max(info.min, -1000), min(info.max, 1000), shape, endpoint=True).astype(dt)
        if data.size > 1:
            data.flat[0], data.flat[-1] = info.min, info.max        # the ends of the type's range
    else:
        data = rng.standard_normal(shape).astype(dt)
        if data.size:
            data.flat[0] = [0.0, -0.0, 1e-300 if dt == np.float64 else 1e-30, np.inf, np.nan][int(rng.integers(0, 5))]
    axes = []
    for n in shape:
        adts = [np.float64, np.float32, np.int64, np.int32, np.int16, np.int8, np.uint8, np.uint16, np.uint32, np.uint64]
        adt = adts[int(rng.integers(0, len(adts)))]
        if np.issubdtype(adt, np.unsignedinteger):
            axes.append(np.sort(rng.uniform(0, 200, n)).astype(adt))
        else:
            axes.append(np.sort(rng.uniform(-100, 100, n)).astype(adt) if np.issubdtype(adt, np.integer) else np.sort(rng.uniform(-10, 10, n)).astype(adt))
    pool = ["log_e_nu", "beta_rad", "e_tau_frac", "a b", "A", "a", "x/y", "Zenith Angle (deg)", "énergie", "β", "n" * 30, "data", "AXIS0", "1", "  lead"]
    names = [str(x) for x in rng.choice(pool, ndim, replace=False)]
    return data, axes, names


def check_unit_invariance(ctx, tmp):
    """The same table in other units.  The property quantifies over "all grids ... all slice coordinates within an axis range":
    a table does not become a different table when an axis is expressed in ns instead of s, in GeV instead of eV, or when the
    stored values are rescaled.  Multiplying an axis (and the slicing coordinate) by a power of two is exact in binary
    floating point, and so is every step of a two-point blend, so here invariance is demanded BIT FOR BIT: the slice of the
    grid with the axis scaled by 2^-30, 2^-20, 2^20, 2^40 equals the slice of the unscaled grid, for evenly spaced, nearly
    evenly spaced, doubling and random axes, at every node, between nodes, at the ends and one ulp beside a node, and each of
    them equals the exact rational two-point formula; the remaining axes come back as given; scaling the stored values scales
    the slice; the same for the row-wise interpolation (abscissae / ordinates in other units) and the file round trip."""
    from fractions import Fraction as F
    from nuspacesim.utils.grid import NssGrid
    from nuspacesim.utils.interp import grid_slice_interp, vec_1d_interp
    rng = ctx.rng
    EXPS = (-30, -20, 20, 40)
    eps = np.finfo(float).eps

    def make_axis(kind, n):
        if kind == "even":
            return float(rng.uniform(-8, 8)) + float(rng.choice([0.25, 0.1, 1.0, 0.37])) * np.arange(n)
        if kind == "even-linspace":
            a = float(rng.uniform(-8, 8))
            return np.linspace(a, a + float(rng.uniform(0.5, 6)), n)
        if kind == "nearly-even":
            return float(rng.uniform(-8, 8)) + np.cumsum(1.0 + float(rng.choice([1e-7, 1e-4, 1e-2, 0.3])) * rng.uniform(-1, 1, n))
        if kind == "doubling":
            return np.concatenate([[0.0], 0.5 * 2.0 ** np.arange(n - 1)])
        if kind == "log-spaced":
            return 10.0 ** np.linspace(-1, 1.5, n)
        return np.sort(rng.uniform(-5, 5, n)) + np.arange(n) * 1e-3
    kinds = ["even", "even-linspace", "nearly-even", "doubling", "log-spaced", "random"]
    for t in range(180 if ctx.thorough else 36):
        kind = kinds[t % len(kinds)]
        n = int(rng.integers(3, 10))
        x = np.asarray(make_axis(kind, n), dtype=np.float64)
        nd = 2 + (t // len(kinds)) % 2
        ax = int(rng.integers(0, nd))
        shape = [int(v) for v in rng.integers(2, 5, nd)]
        shape[ax] = n
        data = rng.standard_normal(shape)
        others = [np.sort(rng.uniform(-5, 5, m)) + np.arange(m) * 1e-3 for m in shape]
        names = ["ax%d" % j for j in range(nd)]
        k0 = int(rng.integers(0, n - 1))
        vals = [("node", float(x[k])) for k in range(n)]
        vals += [("between", float(x[k] + rng.uniform(0.05, 0.95) * (x[k + 1] - x[k]))) for k in sorted({k0, int(rng.integers(0, n - 1)), 0, n - 2})]
        vals += [("node+-ulp", float(min(max(np.nextafter(x[k0 + 1], x[k0 + 1] + (1 if t % 2 else -1)), x[0]), x[-1])))]
        planes = np.moveaxis(data, ax, 0)
        for where, val in vals:
            k = int(np.clip(np.searchsorted(x, val, side="right") - 1, 0, n - 2))
            tt = (F(val) - F(float(x[k]))) / (F(float(x[k + 1])) - F(float(x[k])))
            ref = np.array([float((1 - tt) * F(float(a)) + tt * F(float(b))) for a, b in zip(planes[k].ravel(), planes[k + 1].ravel())]).reshape(planes[k].shape)
            mag = np.maximum(np.abs(planes[k]), np.abs(planes[k + 1]))
            base = None
            for e in (0,) + EXPS:
                s_ax = 2.0 ** e
                s_oth = 2.0 ** int(rng.choice(EXPS)) if e else 1.0
                s_dat = 2.0 ** int(rng.choice((-20, 0, 0, 20))) if e else 1.0
                axes = [(x * s_ax) if j == ax else (others[j] * s_oth) for j in range(nd)]
                case = {"axis_kind": kind, "axis_unscaled": [repr(float(v)) for v in x], "axis_scaled_by": f"2**{e}", "other_axes_scaled_by": repr(s_oth), "values_scaled_by": repr(s_dat),
                        "slice_value_unscaled": repr(val), "where": where, "slice_axis": ax, "shape": shape, "bracket": [k, k + 1]}
                ctx.case(("slice-units", t, where, val, e), None)
                ctx.count(f"slice_units_{kind}_{where}")
                try:
                    r = grid_slice_interp(NssGrid(data * s_dat, axes, names), val * s_ax, names[ax] if t % 2 else ax)
                    got = np.asarray(r.data, dtype=np.float64) / s_dat
                except Exception as ex:  # noqa
                    ctx.violation("grid_slice_interp", "raises:axis-in-other-units", f"slicing a grid whose axis is multiplied by 2**{e} raises {type(ex).__name__}: {str(ex)[:100]}", case)
                    break
                if got.shape != ref.shape or not np.all(np.abs(got - ref) <= 8 * eps * mag + 1e-300):
                    ctx.violation("grid_slice_interp", "not-linear-blend:axis-in-other-units",
                                  f"with the {kind} axis multiplied by 2**{e} the slice ({where}) is not the linear blend of the two neighbouring sub-grids (largest deviation {float(np.max(np.abs(got - ref))) if got.shape == ref.shape else 'shape'})",
                                  {**case, "result": got.ravel().tolist()[:12], "expected": ref.ravel().tolist()[:12]})
                    break
                if where == "node" and not np.all(np.abs(got - planes[int(np.argmin(np.abs(x - val)))]) <= 4 * eps * mag):
                    ctx.violation("grid_slice_interp", "node-not-reproduced:axis-in-other-units", f"with the {kind} axis multiplied by 2**{e} the slice at a node is not the stored sub-grid", case)
                    break
                if not (len(r.axes) == nd - 1 and all(np.array_equal(a, b) for a, b in zip(r.axes, [a_ for j, a_ in enumerate(axes) if j != ax]))):
                    ctx.violation("grid_slice_interp", "remaining-axes-changed:axis-in-other-units", "the remaining axes of the slice are not the axes given", case)
                    break
                if base is None:
                    base = got
                elif not np.array_equal(got, base):
                    ctx.violation("grid_slice_interp", "unit-dependent", f"multiplying the axis by 2**{e} (exact) changes the slice: largest difference {float(np.max(np.abs(got - base)))}", case)
                    break
    # the row-wise interpolation: abscissae and query in other units give the same ordinate, ordinates in other units scale it
    for t in range(60 if ctx.thorough else 16):
        n, B = int(rng.integers(3, 10)), int(rng.integers(1, 7))
        ys = np.sort(rng.uniform(0, 1, n)) + np.arange(n) * 1e-6
        inc = rng.uniform(0.01, 1, (B, n)) * np.where(rng.uniform(0, 1, (B, n)) < 0.7, 1.0, 0.0); inc[:, 0] = 0.0; inc[:, -1] += 0.5
        rows = np.cumsum(inc, axis=1)
        xq = np.array([float(r_[0] + rng.uniform(0.02, 1.0) * (r_[-1] - r_[0])) for r_ in rows])
        base = None
        for e in (0,) + EXPS:
            sx, sy = 2.0 ** e, (2.0 ** int(rng.choice(EXPS)) if e else 1.0)
            ctx.case(("vec-units", t, e), None); ctx.count("vec_units")
            case = {"rows_unscaled": rows.tolist(), "ys_unscaled": ys.tolist(), "x_unscaled": xq.tolist(), "abscissae_scaled_by": f"2**{e}", "ordinates_scaled_by": repr(sy)}
            try:
                got = np.asarray(vec_1d_interp(rows * sx, ys * sy, xq * sx), dtype=np.float64) / sy
            except Exception as ex:  # noqa
                ctx.violation("vec_1d_interp", "raises:row-in-other-units", f"{type(ex).__name__}: {str(ex)[:100]}", case)
                break
            if base is None:
                base = got
            elif got.shape != base.shape or not np.array_equal(got, base):
                ctx.violation("vec_1d_interp", "unit-dependent", f"multiplying abscissae and query by 2**{e} and the ordinates by {sy} (exact) changes the interpolated value", {**case, "got": got.tolist(), "unscaled": base.tolist()})
                break
    # files: a grid whose axes are in small / large units reads back as written
    for t, e in enumerate(EXPS):
        for fmt, ext in (("hdf5", "h5"), ("fits", "fits")):
            x = np.concatenate([[0.0], 0.5 * 2.0 ** np.arange(5)]) * 2.0 ** e
            g = NssGrid(rng.standard_normal((6, 3)) * 2.0 ** (-e), [x, np.arange(3.0) * 2.0 ** e], ["t", "o"])
            pth = os.path.join(tmp, f"units{t}.{ext}")
            ctx.case(("io-units", fmt, e), None); ctx.count("io_units")
            try:
                g.write(pth, format=fmt)
                b = NssGrid.read(pth, format=fmt)
                ok = np.array_equal(np.asarray(b.data), np.asarray(g.data)) and all(np.array_equal(p_, q_) for p_, q_ in zip(b.axes, g.axes)) and list(b.axis_names) == ["t", "o"]
            except Exception as ex:  # noqa
                ok = False
            finally:
                if os.path.exists(pth):
                    os.remove(pth)
            if not ok:
                ctx.violation("NssGrid.write/read", f"{fmt}-not-loss-free:axis-in-other-units", f"a grid whose axes are multiplied by 2**{e} does not read back as written", {"format": fmt, "axis": x.tolist()})



def run(ctx: Ctx):
    from nuspacesim.utils.grid import NssGrid
    from nuspacesim.utils.interp import grid_slice_interp, vec_1d_interp
    rng = ctx.rng
    tmp = tempfile.mkdtemp(prefix="c18_", dir=os.environ.get("TMPDIR", "/tmp"))
    # ---------------- (a0) several grids in one HDF5 file (how the shipped table files are produced: /pexit_regen next to
    # /pexit_no_regen), written one after the other, one of them replaced later: every grid reads back as it was last written
    def grids_equal(a, b):
        return (np.array_equal(np.asarray(a.data), np.asarray(b.data), equal_nan=True) and list(a.axis_names) == list(b.axis_names)
                and len(a.axes) == len(b.axes) and all(np.array_equal(x, y) for x, y in zip(a.axes, b.axes)))
    for t in range(12 if ctx.thorough else 3):
        pth = os.path.join(tmp, f"multi{t}.h5")
        if os.path.exists(pth):
            os.remove(pth)
        paths = ["/a", "/b/c", "/d"][: 2 + t % 2]
        cur = {}
        ops = [(q, None) for q in paths] + [(paths[int(rng.integers(0, len(paths)))], True), (paths[0], True)]
        hist = []
        try:
            for q, ow in ops:
                data, axes, names = rand_grid(rng, "hdf5")
                while not all(nm.isascii() and nm.isprintable() and nm for nm in names):
                    data, axes, names = rand_grid(rng, "hdf5")
                g_ = NssGrid(data, axes, names)
                if ow is None:
                    g_.write(pth, path=q, format="hdf5")
                else:
                    g_.write(pth, path=q, format="hdf5", overwrite=True)
                cur[q] = g_
                hist.append(f"write {q}" + (" overwrite=True" if ow else ""))
                ctx.count("hdf5_multi_grid_writes")
                for q2, want in cur.items():
                    try:
                        back = NssGrid.read(pth, path=q2, format="hdf5")
                        ok = grids_equal(want, back)
                        err = None
                    except Exception as e:  # noqa
                        ok, err = False, f"{type(e).__name__}: {str(e)[:100]}"
                    ctx.case(("hdf5-multi", t, len(hist), q2), None)
                    if not ok:
                        ctx.violation("NssGrid.write/read", "hdf5-other-grid-in-the-file-lost",
                                      f"after `{hist[-1]}` the grid stored under {q2} no longer reads back as written" + (f" ({err})" if err else ""),
                                      {"history": list(hist), "grid": q2})
                        raise StopIteration
        except StopIteration:
            pass
        except Exception as e:  # noqa
            ctx.violation("NssGrid.write/read", "hdf5-raises", f"{type(e).__name__}: {str(e)[:120]} after {hist}", {"history": list(hist)})
        finally:
            if os.path.exists(pth):
                os.remove(pth)
    # ---------------- (a) file round trip
    n_io = 300 if ctx.thorough else 60
    vocab = code_vocabulary()
    ctx.extra["axis_name_vocabulary"] = {"names": len(vocab), "sample": vocab[:12]}
    vocab_pairs = [(vocab[i], vocab[i + 1]) for i in range(0, len(vocab) - 1, 2)][: (n_io - 4 if ctx.thorough else 40)]
    for fmt, ext in (("hdf5", "h5"), ("fits", "fits")):
        for t in range(n_io):
            data, axes, names = rand_grid(rng, fmt)
            if t < 4:
                # directed: axis names that differ only in letter case / surrounding blanks / coincide with a reserved FITS name,
                # on axes of EQUAL length with different values (a mix-up of the axes would otherwise change the shape and be loud)
                names = [["a", "A"], ["E", "e", "z"], ["x", " x"], ["PRIMARY", "data"]][t]
                k_ = int(rng.integers(2, 5))
                shape = (k_,) * len(names)
                data = rng.standard_normal(shape)
                axes = [np.sort(rng.uniform(-10, 10, k_)) + 100.0 * j_ for j_ in range(len(names))]
                ctx.count("io_directed_similar_names")
            elif vocab_pairs and t - 4 < len(vocab_pairs):
                # directed: the code base's own vocabulary as axis names (two axes of equal length with different values)
                names = list(vocab_pairs[t - 4])
                k_ = int(rng.integers(2, 5))
                data = rng.standard_normal((k_, k_))
                axes = [np.sort(rng.uniform(-10, 10, k_)) + 100.0 * j_ for j_ in range(2)]
                ctx.count("io_code_vocabulary_names")
            g = NssGrid(data, axes, names)
            p = os.path.join(tmp, f"g{t}.{ext}")
            if os.path.exists(p):
                os.remove(p)
            ascii_ok = all(nm.isascii() and nm.isprintable() for nm in names)
            case = {"format": fmt, "shape": list(data.shape), "dtype": str(data.dtype), "axis_dtypes": [str(a.dtype) for a in axes], "names": names}
            ctx.case((fmt, t), case if t == 0 else None)
            try:
                g.write(p, format=fmt)
                g2 = NssGrid.read(p, format=fmt)
            except Exception as e:  # noqa
                if ascii_ok and all(names):
                    ctx.violation("NssGrid.write/read", f"{fmt}-raises", f"{type(e).__name__}: {str(e)[:120]}", case)
                else:
                    ctx.count(f"{fmt}_rejected_unrepresentable_name")
                continue
            finally:
                if os.path.exists(p):
                    os.remove(p)
            same = (np.array_equal(np.asarray(g.data), np.asarray(g2.data), equal_nan=True) and np.asarray(g2.data).shape == data.shape
                    and list(g2.axis_names) == names and len(g2.axes) == len(axes)
                    and all(np.array_equal(a, b2) for a, b2 in zip(axes, g2.axes))
                    and np.asarray(g2.data).dtype.kind == data.dtype.kind and np.asarray(g2.data).dtype.itemsize == data.dtype.itemsize
                    and np.array_equal(np.signbit(np.asarray(g.data, dtype=np.float64)), np.signbit(np.asarray(g2.data, dtype=np.float64))))
            ctx.count(f"{fmt}_ndim{data.ndim}")
            if not same:
                ctx.violation("NssGrid.write/read", f"{fmt}-not-loss-free", "grid read back differs from the grid written", case)
    # shipped tables: loaded through NssGrid.read == raw h5py content
    import h5py
    taus = {v: make_taus(v) for v in VERSIONS}
    check_translator(ctx, taus)
    for v, tau in taus.items():
        with h5py.File(REPO / "src" / "nuspacesim" / "data" / "nupyprop_tables" / f"nu2tau_cdf.{v}.h5", "r") as f:
            raw = f["/"]["__nss_grid_data__"][()]
        ctx.case(("shipped-read", v))
        if not np.array_equal(raw, tau.tau_cdf_grid.data):
            ctx.violation("NssGrid.read", "shipped-table-differs", "table as loaded differs from the file content", {"version": v})
    # ---------------- (b) slicing
    n_sl = 400 if ctx.thorough else 80
    lines, cases = [], []
    for t in range(n_sl):
        n, m = int(rng.integers(2, 8)), int(rng.integers(1, 6))
        grid = np.sort(rng.uniform(-5, 5, n)); grid = grid + np.arange(n) * 1e-3
        subs = rng.standard_normal((n, m))
        # integer and narrow dtypes: neighbouring planes that decrease (unsigned) or span most of the dtype's range
        sdt = [None, None, np.uint8, np.uint16, np.int8, np.int16, np.int32, np.uint32, np.int64, np.float32][t % 10]
        if sdt is not None and np.issubdtype(sdt, np.integer):
            ii = np.iinfo(sdt)
            subs = rng.integers(max(ii.min, -2 ** 40), min(ii.max, 2 ** 40), (n, m), endpoint=True).astype(sdt)
        elif sdt is not None:
            subs = subs.astype(sdt)
        kind = t % 4
        if kind == 0:
            val = float(grid[int(rng.integers(0, n))])                 # at a node
        elif kind == 1:
            k = int(rng.integers(0, n - 1)); val = float(grid[k] + rng.uniform(0, 1) * (grid[k + 1] - grid[k]))
        elif kind == 2:
            val = float(grid[0]) if rng.integers(0, 2) else float(grid[-1])
        else:
            k = int(rng.integers(0, n)); val = float(np.nextafter(grid[k], grid[k] + (1 if rng.integers(0, 2) else -1)))
            val = min(max(val, grid[0]), grid[-1])
        axis = int(rng.integers(0, 2))
        data = subs if axis == 0 else subs.T.copy()
        other = np.arange(m, dtype=float)
        g = NssGrid(data, [grid, other] if axis == 0 else [other, grid], ["s", "o"] if axis == 0 else ["o", "s"])
        data_before = np.array(g.data, copy=True)
        r = grid_slice_interp(g, val, "s" if t % 2 else axis)
        got = np.array(r.data, dtype=np.float64, copy=True).ravel()
        # the slice is a grid of its own: what its owner does to it (normalising, clamping in place — the library's own inverse
        # sampler clamps the slice it takes) must not reach the table it was cut from, nor a later slice at the same coordinate
        if t % 3 == 0:
            try:
                rd = np.asarray(r.data)
                if rd.flags.writeable and rd.size:
                    rd[...] = 0
                r2 = grid_slice_interp(g, val, "s" if t % 2 else axis)
                ctx.count("slice_then_edit_slice")
                if not (np.array_equal(np.asarray(g.data), data_before, equal_nan=True) and np.array_equal(np.asarray(r2.data, dtype=np.float64).ravel(), got, equal_nan=True)):
                    ctx.violation("grid_slice_interp", "slice-aliases-the-grid",
                                  "after the owner of a slice edits it in place, the grid it was cut from (or a second slice at the same coordinate) has changed",
                                  {"grid": grid.tolist(), "value": val, "kind": ["node", "between", "end", "node+-ulp"][kind], "dtype": str(np.asarray(g.data).dtype)})
            except Exception as ex:  # noqa
                ctx.notes.append(f"slice-then-edit probe raised {type(ex).__name__}")
        subs = subs.astype(np.float64)          # the reference and the model blend the VALUES (exact in binary64 up to 2^53)
        lines.append(f"slice {n} {m} {fh(grid)} {fh(subs)} {f2h(val)}")
        cases.append((grid, subs, val, got, kind, list(r.axis_names)))
        ctx.count(f"slice_dtype_{np.dtype(sdt).name if sdt is not None else 'float64'}")
    out = run_driver(lines)
    for (grid, subs, val, got, kind, rnames), o in zip(cases, out):
        mod = np.array([h2f(x) for x in o])
        case = {"grid": grid.tolist(), "value": val, "kind": ["node", "between", "end", "node+-ulp"][kind], "result": got.tolist()}
        ctx.case(("slice", val, len(grid)), case if kind == 1 and len(ctx.samples) < 5 else None)
        ctx.count("slice_" + case["kind"])
        if len(mod) != len(got) or not all(close(a, b, 1e-9, 1e-12) for a, b in zip(mod, got)):
            ctx.disagree("C18.slice", {**case, "model": mod.tolist()})
        k = int(np.clip(np.searchsorted(grid, val, side="right") - 1, 0, len(grid) - 2))
        t_ = (val - grid[k]) / (grid[k + 1] - grid[k])
        ref = (1 - t_) * subs[k] + t_ * subs[k + 1]
        scale = np.maximum(np.abs(subs[k]), np.abs(subs[k + 1]))
        if rnames != ["o"]:
            ctx.violation("grid_slice_interp", "axis-names", "remaining axis names wrong", case)
        elif not np.all(np.abs(got - ref) <= 8 * np.finfo(float).eps * scale + 1e-300):
            ctx.violation("grid_slice_interp", "not-linear-blend", "slice is not the linear blend of the neighbouring sub-grids", {**case, "expected": ref.tolist()})
        elif kind == 0 and not np.all(np.abs(got - subs[int(np.argmin(np.abs(grid - val)))]) <= 4 * np.finfo(float).eps * scale):
            ctx.violation("grid_slice_interp", "node-not-reproduced", "slice at a node does not reproduce the stored sub-grid", case)
    # ---------------- (b') slices of 3- and 4-dimensional grids along EVERY axis (by index and by name), equal-length axes included
    # (a permutation of the remaining dimensions is silent there): data, remaining axes and names against numpy
    for t in range(120 if ctx.thorough else 24):
        nd = 3 + t % 2
        k_ = int(rng.integers(2, 5))
        shape = (k_,) * nd if t % 3 else tuple(int(x) for x in rng.integers(2, 5, nd))
        data = rng.standard_normal(shape)
        axes = [np.sort(rng.uniform(-5, 5, n_)) + 10.0 * j_ + np.arange(n_) * 1e-3 for j_, n_ in enumerate(shape)]
        names = ["ax%d" % j_ for j_ in range(nd)]
        gN = NssGrid(data, axes, names)
        ax = t % nd
        kk = int(rng.integers(0, shape[ax] - 1))
        val = float(axes[ax][kk]) if t % 4 == 0 else float(axes[ax][kk] + rng.uniform(0.1, 0.9) * (axes[ax][kk + 1] - axes[ax][kk]))
        tt = (val - axes[ax][kk]) / (axes[ax][kk + 1] - axes[ax][kk])
        ref = (1 - tt) * np.take(data, kk, axis=ax) + tt * np.take(data, kk + 1, axis=ax)
        ctx.case(("slice-nd", nd, ax, t), None); ctx.count(f"slice_{nd}d_axis{ax}")
        case = {"shape": list(shape), "axis": ax, "by": "name" if t % 2 else "index", "value": val}
        try:
            rN = grid_slice_interp(gN, val, names[ax] if t % 2 else ax)
            want_names = [n_ for j_, n_ in enumerate(names) if j_ != ax]
            want_axes = [a_ for j_, a_ in enumerate(axes) if j_ != ax]
            ok_ = (list(rN.axis_names) == want_names and len(rN.axes) == nd - 1 and all(np.array_equal(a_, b_) for a_, b_ in zip(rN.axes, want_axes))
                   and np.asarray(rN.data).shape == ref.shape and np.allclose(np.asarray(rN.data), ref, rtol=1e-12, atol=1e-14))
            if ok_ and t % 3 == 0:
                # the slice is a grid like any other: written to a file and read back it keeps ITS axes and names
                for fmt_, ext_ in (("fits", "fits"), ("hdf5", "h5")):
                    pth_ = os.path.join(tmp, f"slice{t}.{ext_}")
                    if os.path.exists(pth_):
                        os.remove(pth_)
                    try:
                        rN.write(pth_, format=fmt_)
                        back_ = NssGrid.read(pth_, format=fmt_)
                        good_ = (list(back_.axis_names) == want_names and all(np.array_equal(a_, b_) for a_, b_ in zip(back_.axes, want_axes))
                                 and np.array_equal(np.asarray(back_.data), np.asarray(rN.data)))
                        err_ = None
                    except Exception as ex:  # noqa
                        good_, err_ = False, f"{type(ex).__name__}: {str(ex)[:80]}"
                    finally:
                        if os.path.exists(pth_):
                            os.remove(pth_)
                    ctx.count("slice_written_and_read_back")
                    if not good_:
                        ctx.violation("NssGrid.write/read", f"{fmt_}-slice-not-loss-free", f"a slice of a {nd}-dimensional grid along axis {ax} written to {fmt_} does not read back with its own axes and names" + (f" ({err_})" if err_ else ""),
                                      {**case, "expected_names": want_names, "read_back_names": (list(back_.axis_names) if err_ is None else None)})
                        break
            if not ok_:
                ctx.violation("grid_slice_interp", "not-linear-blend:n-dimensional", f"the slice of a {nd}-dimensional grid along axis {ax} is not the linear blend of the neighbouring sub-grids (data, axes or names)",
                              {**case, "names": list(rN.axis_names), "expected_names": want_names, "result_shape": list(np.asarray(rN.data).shape)})
        except Exception as ex:  # noqa
            ctx.violation("grid_slice_interp", "raises", f"slicing a {nd}-dimensional grid along axis {ax} raises {type(ex).__name__}: {str(ex)[:100]}", case)
    check_unit_invariance(ctx, tmp)   # (b'') the same tables in other units
    # ---------------- (c) bracketing interpolation on non-decreasing rows with plateaux
    n_rows = 3000 if ctx.thorough else 400
    for t in range(0, n_rows, 8):
        n = int(rng.integers(2, 12))
        # batch size: usually 8; regularly exactly the number of nodes (a square batch) and its neighbours
        B = [8, 8, n, 8, n + 1, max(n - 1, 1), 1, 2][(t // 8) % 8]
        ys = np.sort(rng.uniform(0, 1, n)) + np.arange(n) * 1e-6
        # the ordinates are any numbers: increasing (what the library's own samplers pass), decreasing, neither, negative
        yk = (t // 8) % 5
        if yk == 1:
            ys = ys[::-1].copy()
        elif yk == 2:
            ys = rng.uniform(-1, 1, n)
        elif yk == 3:
            ys = -ys
        ctx.count(("vec_ordinates_increasing", "vec_ordinates_decreasing", "vec_ordinates_unordered", "vec_ordinates_negative", "vec_ordinates_increasing")[yk])
        rows, xq = [], []
        for _ in range(B):
            inc = rng.uniform(0, 1, n) * (rng.uniform(0, 1, n) < 0.6)     # zeros make plateaux
            inc[0] = 0.0
            xs = np.cumsum(inc)
            if xs[-1] <= xs[0]:
                xs[-1] = xs[0] + 1.0
            xs = xs / xs[-1]
            sel = int(rng.integers(0, 4))
            distinct = np.unique(xs)
            if sel == 0:
                x = float(rng.uniform(xs[0], xs[-1]))
            elif sel == 1:
                x = float(distinct[int(rng.integers(1, len(distinct)))])     # exactly a node value (maybe a plateau)
            elif sel == 2:
                x = float(np.nextafter(distinct[int(rng.integers(0, len(distinct) - 1))], 2.0))
            else:
                x = float(xs[-1])
            if not (xs[0] < x <= xs[-1]):
                x = float(xs[-1])
            rows.append(xs); xq.append(x)
        rows = np.array(rows); xq = np.array(xq)
        try:
            got = np.asarray(vec_1d_interp(rows, ys, xq), dtype=np.float64)
            if got.shape != (B,):
                raise ValueError(f"result has shape {got.shape} for a batch of {B} rows")
        except Exception as ex:  # noqa
            ctx.violation("vec_1d_interp", "raises-on-valid-batch", f"{type(ex).__name__}: {str(ex)[:120]} for a batch of {B} non-decreasing rows with {n} nodes and queries strictly inside the row ranges",
                          {"batch_rows": B, "nodes": n, "rows": rows.tolist(), "ys": ys.tolist(), "x": xq.tolist()})
            continue
        import tautie
        tautie.compare_blend(ctx, rows, ys, xq, got)   # source tie: the translated two-point blend next to the real function
        o = run_driver([f"vecbatch {B} {n} {fh(rows)} {fh(ys)} {fh(xq)}"])[0]
        plateau = bool((np.diff(rows, axis=1) == 0).any())
        ctx.count("rows_with_plateau" if plateau else "rows_strict", B)
        for r in range(B):
            ctx.case(("vec", t + r, float(xq[r])), {"xs": rows[r].tolist(), "ys": ys.tolist(), "x": float(xq[r]), "y": float(got[r])} if t == 0 and r == 0 else None)
        if o[0] != "ok" or not all(close(h2f(a), b, 1e-9) for a, b in zip(o[1:], got)):
            ctx.disagree("C18.vec_1d_interp", {"rows": rows.tolist(), "x": xq.tolist(), "model": " ".join(o)[:300], "code": got.tolist()})
        for r in range(B):
            # ordinary piecewise-linear inverse: the y with plin(y) = x, i.e. interpolate (xs -> ys) at x; on a plateau the
            # bracket xs[k] < x <= xs[k+1] is unique, so the reference is the two-point formula on that bracket
            k = int(np.searchsorted(rows[r], xq[r], side="left")) - 1
            x0, x1 = rows[r][k], rows[r][k + 1]
            ref = ys[k] + (xq[r] - x0) * (ys[k + 1] - ys[k]) / (x1 - x0)
            if not close(ref, got[r], 1e-9, 1e-12):
                ctx.violation("vec_1d_interp", "not-piecewise-linear", "differs from ordinary piecewise-linear interpolation",
                              {"xs": rows[r].tolist(), "ys": ys.tolist(), "x": float(xq[r]), "got": float(got[r]), "expected": float(ref)})
    # ---------------- (c') ill-spaced rows: two neighbouring nodes a few ulp .. 1e-9 apart (a CDF that is almost a plateau),
    # rows far from the origin (offset abscissae), query strictly inside the tight gap.  The reference is the exact rational
    # two-point formula; a correctly written blend is accurate to a few ulp of the ordinates whatever the spacing.
    from fractions import Fraction
    n_ill = 400 if ctx.thorough else 60
    for t in range(n_ill):
        n = int(rng.integers(3, 9))
        ys = np.sort(rng.uniform(0, 1, n)) + np.arange(n) * 1e-3
        kind = t % 3
        if kind < 2:
            xs = np.sort(rng.uniform(0.05, 1.0, n))
            k = int(rng.integers(0, n - 1))
            gap = [2.0 ** -50, 1e-14, 1e-12, 1e-9][int(rng.integers(0, 4))] if kind == 0 else float(4 * np.spacing(xs[k]))
            xs[k + 1:] += (xs[k] * (1 + gap) if kind == 0 else xs[k] + gap) - xs[k + 1]
            xs = np.maximum.accumulate(xs)
            x = float(xs[k] + rng.uniform(0.25, 0.75) * (xs[k + 1] - xs[k]))
        else:
            base = float(10 ** rng.uniform(6, 9))
            xs = base + np.cumsum(rng.uniform(0.05, 0.2, n))
            k = int(rng.integers(0, n - 1))
            x = float(xs[k] + rng.uniform(0.1, 0.9) * (xs[k + 1] - xs[k]))
        if not (xs[k] < x < xs[k + 1]):
            continue
        try:
            got = float(np.asarray(vec_1d_interp(xs[None, :], ys, np.array([x])), dtype=np.float64)[0])
        except Exception as ex:  # noqa
            ctx.violation("vec_1d_interp", "raises-on-valid-batch", f"{type(ex).__name__}: {str(ex)[:120]}", {"xs": xs.tolist(), "ys": ys.tolist(), "x": x})
            continue
        F = Fraction
        ref = float(F(ys[k]) + (F(x) - F(xs[k])) * (F(ys[k + 1]) - F(ys[k])) / (F(xs[k + 1]) - F(xs[k])))
        ctx.case(("vec-ill", t), None)
        ctx.count(("rows_tight_gap", "rows_few_ulp_gap", "rows_offset")[kind])
        if not abs(got - ref) <= 1e-13 * max(abs(ys[k]), abs(ys[k + 1])):
            ctx.violation("vec_1d_interp", "not-piecewise-linear:ill-spaced-row",
                          f"differs from ordinary piecewise-linear interpolation by {abs(got - ref):.3g} (ordinate step {ys[k + 1] - ys[k]:.3g}) on a row whose bracketing nodes are {xs[k + 1] - xs[k]:.3g} apart",
                          {"xs": [repr(float(v_)) for v_ in xs], "ys": ys.tolist(), "x": repr(x), "got": got, "expected": ref})
    # ---------------- (d) every node of every shipped table (numpy, independent of the Lean data theorems)
    for v, tau in taus.items():
        g, p = tau.tau_cdf_grid, tau.pexit_grid
        d = np.asarray(g.data)
        ctx.case(("shipped", v), {"op": "shipped-table", "version": v, "cdf_shape": list(d.shape)}, n=int(d.size + np.asarray(p.data).size))
        for nm, ax in list(zip(g.axis_names, g.axes)) + [("pexit:" + a, b) for a, b in zip(p.axis_names, p.axes)]:
            if not np.all(np.diff(ax) > 0):
                ctx.violation("shipped-table", "axis-not-increasing", f"axis {nm} of version {v} not strictly increasing", {"version": v, "axis": nm})
        dd = np.diff(d, axis=-1)
        if (dd < 0).any():
            i, j, k = (int(x[0]) for x in np.nonzero(dd < 0))
            # concrete sampler input at which the masked interpolation then mis-aligns or F(z) != u
            u_bad = float(0.5 * (d[i, j, k] + d[i, j, k + 1]))
            ctx.violation("shipped-table", "cdf-row-not-monotone", f"CDF row ({i},{j}) of version {v} decreases at entry {k}",
                          {"version": v, "row": [i, j], "k": k, "log_e_nu": float(g.axes[0][i]), "beta": float(g.axes[1][j]), "u": u_bad})
        if (d[..., 0] != 0).any() or (np.abs(d[..., -1] - 1) > 1e-15).any():
            i, j = (int(x[0]) for x in np.nonzero((d[..., 0] != 0) | (np.abs(d[..., -1] - 1) > 1e-15)))
            ctx.violation("shipped-table", "cdf-row-ends", f"CDF row ({i},{j}) of version {v} does not run from 0 to 1 (1e-15)",
                          {"version": v, "row": [i, j], "first": float(d[i, j, 0]), "last": float(d[i, j, -1])})
        pd_ = np.asarray(make_taus(v).pexit_grid.data)
        if (pd_ > 1).any():
            i, j = (int(x[0]) for x in np.nonzero(pd_ > 1))
            ctx.violation("shipped-table", "pexit>1", f"exit probability above 1 at node ({i},{j}) of version {v}", {"version": v, "node": [i, j], "value": float(pd_[i, j])})
        # smallest reachable tau energy: first fraction node below the first non-zero CDF entry, times the neutrino energy
        k0 = (d > 0).argmax(axis=-1)
        emin = g.axes[2][np.maximum(k0 - 1, 0)] * 10 ** g.axes[0][:, None]
        ctx.extra[f"min_reachable_tau_energy_GeV_v{v}"] = float(emin.min())
        if emin.min() <= MASS_TAU:
            i, j = (int(x) for x in np.unravel_index(np.argmin(emin), emin.shape))
            ctx.violation("shipped-table", "tau-energy-below-mass", "smallest reachable tau energy not above the tau mass",
                          {"version": v, "node": [i, j], "E_min": float(emin.min())})
    try:
        os.rmdir(tmp)
    except OSError:
        pass
    ctx.traces += 3


def search(ctx: Ctx):
    if ctx.tier != "thorough":
        ctx.tier = "thorough"
        run(ctx)


if __name__ == "__main__":
    sys.exit(main_for("C18", sys.modules[__name__]))
