"""C19 — standard-atmosphere pressure <-> altitude: correspondence + property oracle on the real code.

Both shipped copies (`simulation/atmosphere/pressure.py`, `simulation/eas_optical/atmospheric_models.py`) are called
in-process on the same inputs; the Lean model (`Model/Atmosphere.lean`, layer table regenerated from
`nuspacesim.constants` into `Gen/AtmConsts.lean` by `regen()`) runs next to them.  The tolerance clauses of the
property (1e-6 km, 1e-6 relative, 3e-7 steps) are PROVED for the model over the reals (Props/C19.lean: roundtrip_1e6,
inverse_forward_1e6, pressure_steps_3e7, pressure_nonincreasing_up_to_3e7); here they are checked on the real code
(rounding included), together with the bit-identity of the copies.
"""
import ast
import hashlib
import math
import sys
import warnings

import numpy as np

warnings.filterwarnings("ignore")
from common import *  # noqa
import common

RULE = ("a case = one altitude z (through pressure_from_altitude then altitude_from_pressure) or one pressure P (the other "
        "way round), pushed through BOTH shipped copies and the Lean model; key = (direction, bit pattern of the input); "
        "streams: structured (z uniform and log-uniform on [0,120] km; P uniform and log-uniform on the normal doubles of "
        "(0,101325] Pa), boundary (the 7 layer boundaries in z, in geopotential h mapped back to z, and the 8 tabulated base "
        "pressures, each with its +-1..200-ulp neighbours; 0, 120, +inf; P = 0; 0-d scalars, python floats, lists, 2-d arrays), "
        "malformed/exotic (subnormal pressures, integer dtypes, P = +inf, negative and NaN inputs: the observed behaviour is "
        "recorded, integer inputs and subnormal pressures are judged against the property)")
ASSUMPTIONS = [
    "tolerances are those of the property statement (1e-6 km, 1e-6 relative, 3e-7 relative upward step); they are NOT tightened: "
    "the measured worst z->P->z error is ~7.9e-7 km (thin margin, caused by the tabulated base pressures, not by rounding)",
    "the top of the model is the isothermal layer above 84.852 km geopotential (z ~ 86 km), which the code extends to z = +inf; "
    "z in (86, 120] km is covered by that layer",
    "model = code is required to 1e-12 relative (libm vs numpy exp/log/pow differ by a few ulp; the exponents are <= 700)",
    "the numbers eps_j = log(P_{j-1}(H_j)/P_j) printed in the evidence are EVALUATED by the Float driver; their 1e-12 enclosures are "
    "PROVED (C19.boundary_mismatch_enclosures, Lemmas/AtmNumeric.lean) for the exact table of Gen/AtmConsts.lean, and the run records "
    "whether the evaluated values lie inside the proved enclosures; the tolerance theorems (roundtrip_1e6, inverse_forward_1e6, "
    "pressure_steps_3e7, pressure_nonincreasing_up_to_3e7) are about the model over the reals, the rounding of the code is observed",
]
TRUSTED_EXTRA = ["the AST normaliser that compares the two Python copies (harness/props/C19.py: _norm_ast); a difference of the "
                 "ASTs is not a violation, the bitwise differential on every generated input decides",
                 "the source translator harness/pytrans.py (its reading of numpy: element-wise arithmetic, Boolean-mask stores, loops over a concrete "
                 "range unrolled, table lookups by an index whose finite value set is checked against the table) — exercised by the "
                 "Float run of the translated source next to the real functions (source_tie in the evidence)"]

NAMES = ("us_std_atm_pressure_from_altitude", "us_std_atm_altitude_from_pressure")
# the enclosures proved in lean/NssVerif/Props/C19.lean (boundary_mismatch_enclosures), j = 1..7
PROVED_EPS = [(1.1228e-8, 1.1229e-8), (-3.1757e-8, -3.1755e-8), (-2.0964e-8, -2.0963e-8), (1.9729e-8, 1.9730e-8),
              (-2.9783e-8, -2.9782e-8), (-3.3632e-8, -3.3631e-8), (-1.40681e-7, -1.40680e-7)]
GEN = common.LEAN / "NssVerif" / "Gen" / "AtmConsts.lean"


# --------------------------------------------------------------------------- regeneration of Gen/AtmConsts.lean

def _dy(x: float) -> str:
    x = float(x)
    if x == math.inf:
        return "inf"
    if not math.isfinite(x):
        raise InfraError(f"cannot emit {x!r} as a layer constant")
    if x == 0.0:
        return "dy 0 0"
    m, e = math.frexp(x)
    mi = int(m * (1 << 53))
    e -= 53
    while mi % 2 == 0:
        mi //= 2
        e += 1
    return f"dy ({mi}) ({e})"


def _consts():
    from nuspacesim import constants as c
    tab = {"hb": c.std_atm_geopotential_height, "lm": c.std_atm_lack_rate, "tb": c.std_atm_temperature, "pb": c.std_atm_pressure}
    tab = {k: [float(v) for v in np.asarray(a, dtype=np.float64)] for k, a in tab.items()}
    return tab, float(c.std_atm_gmr), float(c.earth_radius)


def regen():
    tab, gmr, R = _consts()
    n = len(tab["hb"])
    if len({len(v) for v in tab.values()}) != 1:
        raise InfraError("std_atm_* arrays of nuspacesim.constants have different lengths")
    lines = ["import NssVerif.Model.Atmosphere", "",
             "/-! GENERATED by harness/props/C19.py (regen) from `nuspacesim.constants` of the tree under check — do not edit.",
             "Every double is emitted exactly as `dy m e = m·2^e`; `+inf` entries are the parameter `inf`. -/",
             "namespace Gen.AtmConsts", "open Scalar", "",
             f"/-- the {n}-entry layer table (`std_atm_geopotential_height`, `std_atm_lack_rate`, `std_atm_temperature`,",
             "`std_atm_pressure`, `std_atm_gmr`, `earth_radius`) -/",
             "def layers {α : Type} [Scalar α] (inf : α) : Model.Atm.Layers α where"]
    for k in ("hb", "lm", "tb", "pb"):
        lines.append(f"  {k} := [" + ", ".join(_dy(v) for v in tab[k]) + "]")
        lines.append("    -- " + ", ".join(repr(v) for v in tab[k]))
    lines += [f"  gmr := {_dy(gmr)}  -- {gmr!r}", f"  earthRadius := {_dy(R)}  -- {R!r}", "  inf := inf", "",
              "end Gen.AtmConsts", ""]
    text = "\n".join(lines)
    changed = write_if_changed(GEN, text)
    out = {"Gen/AtmConsts.lean": {"rewritten": changed, "sha256": hashlib.sha256(text.encode()).hexdigest()[:16], "layers": n}}
    # source tie: both copies of the two functions -> lean/NssVerif/Gen/Src/C19.lean (bridging theorems `C19.src_*`)
    import srctie
    out.update(srctie.regen("C19"))
    return out


# --------------------------------------------------------------------------- AST identity of the two copies

def _norm_ast(path, fname):
    """normalised AST dump of function `fname` in `path`: docstring dropped, locals alpha-renamed in order of first
    appearance, module-level aliases `X = const.Y` resolved to `const.Y`"""
    tree = ast.parse(open(path).read())
    alias = {}
    for node in tree.body:
        if isinstance(node, ast.Assign) and len(node.targets) == 1 and isinstance(node.targets[0], ast.Name):
            alias[node.targets[0].id] = ast.dump(node.value)
    fn = next(n for n in tree.body if isinstance(n, ast.FunctionDef) and n.name == fname)
    body = fn.body
    if body and isinstance(body[0], ast.Expr) and isinstance(getattr(body[0], "value", None), ast.Constant) and isinstance(body[0].value.value, str):
        body = body[1:]
    local = {a.arg for a in fn.args.args}
    for n in ast.walk(fn):
        if isinstance(n, ast.Name) and isinstance(n.ctx, ast.Store):
            local.add(n.id)
    ren = {}

    class R(ast.NodeTransformer):
        def visit_Name(self, n):
            if n.id in local:
                ren.setdefault(n.id, f"v{len(ren)}")
                return ast.copy_location(ast.Name(id=ren[n.id], ctx=n.ctx), n)
            if n.id in alias:
                return ast.copy_location(ast.Name(id="<" + alias[n.id] + ">", ctx=n.ctx), n)
            return n

        def visit_arg(self, n):
            ren.setdefault(n.arg, f"v{len(ren)}")
            n.arg = ren[n.arg]
            return n

    mod = ast.Module(body=[R().visit(ast.FunctionDef(name="f", args=fn.args, body=body, decorator_list=[], returns=None, type_params=[]))],
                     type_ignores=[])
    return ast.dump(mod, annotate_fields=False, include_attributes=False)


def copies_identical_ast(A, B):
    out = {}
    for nm in NAMES:
        try:
            out[nm] = _norm_ast(A.__file__, nm) == _norm_ast(B.__file__, nm)
        except Exception as e:  # a parse problem is not a verdict
            out[nm] = f"not comparable: {type(e).__name__}: {e}"
    return out


# --------------------------------------------------------------------------- helpers

def bits(a):
    return np.ascontiguousarray(np.asarray(a, dtype=np.float64)).view(np.uint64)


def same_bits(a, b):
    a = np.asarray(a)
    b = np.asarray(b)
    return a.shape == b.shape and a.dtype == b.dtype and np.array_equal(bits(a), bits(b))


def neighbours(x, k=200):
    """x and its +-1..k ulp neighbours (ascending)"""
    x = np.float64(x)
    lo = [x]
    hi = [x]
    for _ in range(k):
        lo.append(np.nextafter(lo[-1], -np.inf))
        hi.append(np.nextafter(hi[-1], np.inf))
    return np.array(lo[:0:-1] + [x] + hi[1:], dtype=np.float64)


def driver_map(op, xs, chunk=2000):
    xs = np.asarray(xs, dtype=np.float64).ravel()
    lines = [f"{op} " + fh(xs[i:i + chunk]) for i in range(0, len(xs), chunk)]
    out = run_driver_sharded(lines, 8)
    return np.array([h2f(t) for toks in out for t in toks], dtype=np.float64)


def rel_close(a, b, rtol):
    a = np.asarray(a, dtype=np.float64)
    b = np.asarray(b, dtype=np.float64)
    with np.errstate(all="ignore"):
        ok = np.abs(a - b) <= rtol * np.maximum(np.abs(a), np.abs(b))
    return ok | (a == b) | (np.isnan(a) & np.isnan(b))


# --------------------------------------------------------------------------- the run

def purity_and_order(ctx, fp, fz, tag, Ptop):
    """directed probes that do not depend on the rest of the run (also the first thing the failing-input search does)"""
    SP = NAMES[0]
    # the caller's arrays are inputs only: unchanged after the call (end cases included), read-only arrays accepted; and the
    # value of an element does not depend on which element comes first (profiles listed top-down start with +inf / 0 Pa)
    za = np.array([np.inf, 0.0, 5.0, 50.0, 90.0, np.inf, 11.0, 120.0])
    pa = np.array([0.0, 101325.0, 54048.0, 79.0, 0.1, 0.0, Ptop, 1e-3])
    # the result has the shape of the argument, axes of length 1 included (a column profile z[:, None], a single cloud-top pressure
    # of shape (1,)), and holds what the flat evaluation holds
    zs_ = np.array([0.0, 1.5, 11.0, 19.99, 47.0, 84.852])
    for f_, site_, flat_ in ((fp, SP, zs_), (fz, NAMES[1], np.asarray(fp(zs_.copy()), dtype=np.float64))):
        want_ = np.asarray(f_(flat_.copy()), dtype=np.float64)
        for shp in ((6, 1), (1, 6), (1, 6, 1), (2, 3), (3, 1, 2), (1,), (1, 1)):
            arg_ = (flat_[:1] if shp in ((1,), (1, 1)) else flat_).reshape(shp).copy()
            ctx.count("shapes_with_singleton_axes")
            try:
                got_ = np.asarray(f_(arg_))
            except Exception as e:  # noqa: BLE001
                ctx.violation(f"{site_} [{tag}]", "raises-on-shaped-input", f"{type(e).__name__}: {str(e)[:100]}", {"copy": tag, "shape": list(shp)})
                continue
            w_ = (want_[:1] if shp in ((1,), (1, 1)) else want_).reshape(shp)
            if got_.shape != tuple(shp) or not np.array_equal(np.asarray(got_, dtype=np.float64), w_, equal_nan=True):
                ctx.violation(f"{site_} [{tag}]", "shape-or-values-depend-on-the-arguments-shape",
                              f"an argument of shape {shp} gives a result of shape {got_.shape}" + ("" if got_.shape != tuple(shp) else " with other values than the flat evaluation"),
                              {"copy": tag, "argument_shape": list(shp), "result_shape": list(got_.shape), "argument": arg_.ravel().tolist()})
    # what the calling program logs is inert: the same profiles (unsorted, 1-D and 2-D, and a scalar) with DEBUG logging switched on
    import logmode
    zl = np.concatenate([za[1:5], np.linspace(0.3, 118.7, 41)[::-1], [9.19, 71.0, 20.0, 32.0]])
    with np.errstate(all="ignore"):
        pl = np.asarray(fp(zl.copy()), dtype=np.float64)
    logmode.check(ctx, f"{SP} [{tag}]", lambda: (np.asarray(fp(zl.copy())), np.asarray(fp(zl.reshape(7, 7).copy())), np.asarray(fp(np.float64(9.19)))),
                  {"copy": tag, "z": zl.tolist()})
    logmode.check(ctx, f"{NAMES[1]} [{tag}]", lambda: (np.asarray(fz(pl.copy())), np.asarray(fz(pl.reshape(7, 7).copy())), np.asarray(fz(np.float64(29960.0)))),
                  {"copy": tag, "P": pl.tolist()})
    for nm_, f_, arr in (("altitudes", fp, za), ("pressures", fz, pa)):
        for order in ("as listed", "reversed", "sorted"):
            a_ = arr if order == "as listed" else (arr[::-1].copy() if order == "reversed" else np.sort(arr))
            keep = a_.copy()
            with np.errstate(all="ignore"):
                out_ = np.asarray(f_(a_))
                single = np.array([float(f_(float(x_))) for x_ in keep])
            ctx.case(("purity", tag, nm_, order), None)
            ctx.count("purity_and_order_calls")
            if not same_bits(a_, keep):
                ctx.violation(SP, "mutates-input", f"the caller's array of {nm_} is modified by the call",
                              {"copy": tag, "argument": nm_, "before": keep.tolist(), "after": np.asarray(a_).tolist()})
                break
            if out_.dtype != np.float64 or not same_bits(out_.astype(np.float64), single):
                k_ = int(np.nonzero(out_.astype(np.float64) != single)[0][0]) if out_.shape == single.shape and (out_.astype(np.float64) != single).any() else 0
                ctx.violation(SP, "array-differs-from-scalar", f"the value of an element of an array of {nm_} ({order}; dtype of the result {out_.dtype}) differs from the scalar call",
                              {"copy": tag, "argument": nm_, "order": order, "input": keep.tolist(), "index": k_, "array": float(out_[k_]), "scalar": float(single[k_]), "result_dtype": str(out_.dtype)})
                break
        ro = arr.copy(); ro.setflags(write=False)
        try:
            with np.errstate(all="ignore"):
                f_(ro)
        except Exception as ex:  # noqa
            ctx.violation(SP, "mutates-input", f"a read-only array of {nm_} is rejected: {type(ex).__name__}: {str(ex)[:80]}", {"copy": tag, "argument": nm_})


def run(ctx: Ctx):
    from nuspacesim.simulation.atmosphere import pressure as A
    from nuspacesim.simulation.eas_optical import atmospheric_models as B
    rng = ctx.rng
    tab, gmr, R = _consts()
    Hb, Pb = np.array(tab["hb"]), np.array(tab["pb"])
    nb = len(Hb) - 2  # real boundaries 1..nb (the last entry is the sentinel layer)
    fA_p, fA_z = A.us_std_atm_pressure_from_altitude, A.us_std_atm_altitude_from_pressure
    fB_p, fB_z = B.us_std_atm_pressure_from_altitude, B.us_std_atm_altitude_from_pressure
    SP, SZ = NAMES

    # ---- translator round trip: the table the driver was compiled with = the table the live package has
    got = np.array([h2f(x) for x in run_driver(["atm_consts"])[0]])
    want = np.array(tab["hb"] + tab["lm"] + tab["tb"] + tab["pb"] + [gmr, R])
    ctx.case(("consts",), {"op": "constants", "H_b": tab["hb"], "P_b": tab["pb"], "gmr": gmr, "earth_radius": R})
    if not same_bits(got, want):
        ctx.disagree("C19.constants", {"model": got.tolist(), "code": want.tolist()})
    # ---- the two copies as source text
    ctx.extra["copies_identical_ast"] = copies_identical_ast(A, B)
    ctx.extra["copies_share_constants"] = bool(all(getattr(A, n) is getattr(B, n) or np.array_equal(getattr(A, n), getattr(B, n))
                                                   for n in ("H_b", "Lm_b", "T_b", "P_b", "gmr")))
    # ---- boundary mismatches: evaluated by the Float driver, enclosed by proof (C19.boundary_mismatch_enclosures)
    eps = [h2f(x) for x in run_driver(["atm_eps"])[0]]
    ctx.extra["boundary_mismatch_eps_evaluated"] = {f"j={j + 1} (H={Hb[j + 1]})": e for j, e in enumerate(eps)}
    ctx.extra["max_abs_eps"] = max(abs(e) for e in eps)
    ctx.extra["boundary_mismatch_eps_proved_enclosures"] = {f"j={j + 1}": list(PROVED_EPS[j]) for j in range(len(PROVED_EPS))}
    ctx.extra["boundary_mismatch_eps_inside_proved_enclosures"] = bool(
        len(eps) == len(PROVED_EPS) and all(lo - 1e-13 <= e <= hi + 1e-13 for e, (lo, hi) in zip(eps, PROVED_EPS)))

    # ------------------------------------------------------------------ inputs
    n = 5_000_000 if ctx.thorough else 200_000
    zb = R * Hb[1:nb + 1] / (R - Hb[1:nb + 1])  # the boundaries as geometric altitudes
    z_struct = np.concatenate([rng.uniform(0.0, 120.0, n // 4), np.exp(rng.uniform(np.log(1e-9), np.log(120.0), n // 8)),
                               # dense windows under/over each boundary (where the round trip is worst)
                               np.concatenate([rng.uniform(b - 0.02, b + 0.02, n // 16) for b in zb])])
    zn = [neighbours(b) for b in zb]  # +-200 ulp in z
    for hbj in Hb[1:nb + 1]:  # +-200 ulp in h, mapped back to z
        hn = neighbours(hbj)
        zn.append(R * hn / (R - hn))
    zn.append(neighbours(0.0)[200:])
    zn.append(neighbours(120.0)[:201])
    zn.append(Hb[1:nb + 1])  # the table heights taken as geometric altitudes
    z_bound = np.concatenate(zn)
    ctx.count("z_structured", len(z_struct))
    ctx.count("z_boundary", len(z_bound))
    z_all = np.concatenate([z_bound, z_struct])
    z_all = z_all[(z_all >= 0.0) & (z_all <= 120.0)]

    tiny = float(np.finfo(np.float64).tiny)
    Ptop = float(Pb[0])
    p_struct = np.concatenate([rng.uniform(0.0, Ptop, n // 4), np.exp(rng.uniform(np.log(1e-3), np.log(Ptop), n // 4)),
                               np.exp(rng.uniform(np.log(tiny), np.log(1e-3), n // 16))])
    p_struct = p_struct[(p_struct >= tiny) & (p_struct <= Ptop)]
    pn = [neighbours(p) for p in Pb[:nb + 1]]
    pn.append(np.array([tiny, float(np.nextafter(tiny, 1.0)), Ptop]))
    p_bound = np.concatenate(pn)
    p_bound = p_bound[(p_bound >= tiny) & (p_bound <= Ptop)]
    ctx.count("P_structured", len(p_struct))
    ctx.count("P_boundary", len(p_bound))
    p_all = np.concatenate([p_bound, p_struct])

    def report(site, cls, what, idx, arrs):
        i = int(idx)
        ctx.violation(site, cls, what, {k: (float(v[i]) if np.ndim(v) else float(v)) for k, v in arrs.items()} |
                      {k + "_hex": f2h(v[i]) for k, v in arrs.items() if np.ndim(v) and k in ("z", "P")})

    # ------------------------------------------------------------------ z -> P -> z on the real code (both copies)
    z0 = z_all.copy()
    with np.errstate(all="ignore"):
        PA, PB = fA_p(z_all), fB_p(z_all)
        zA, zB = fA_z(PA), fB_z(PA)
    if not np.array_equal(z0, z_all):
        ctx.violation(SP, "mutates-input", "input array modified", {})
    if not same_bits(PA, PB):
        k = np.nonzero(bits(PA) != bits(PB))[0] if np.shape(PA) == np.shape(PB) else [0]
        report(SP, "copies-differ", "the two shipped copies differ bitwise", k[0], {"z": z_all, "P_atmosphere": PA, "P_eas_optical": PB})
    if not same_bits(zA, zB):
        k = np.nonzero(bits(zA) != bits(zB))[0] if np.shape(zA) == np.shape(zB) else [0]
        report(SZ, "copies-differ", "the two shipped copies differ bitwise", k[0], {"P": PA, "z_atmosphere": zA, "z_eas_optical": zB})
    err = np.abs(zA - z_all)
    ctx.extra["max_roundtrip_z_err_km"] = float(np.nanmax(err))
    ctx.extra["argmax_roundtrip_z_km"] = float(z_all[int(np.nanargmax(err))])
    bad = np.nonzero(~(err <= 1e-6))[0]
    if len(bad):
        k = bad[np.argmax(np.nan_to_num(err[bad], nan=np.inf))]
        report("roundtrip z->P->z", "error>1e-6km", "altitude -> pressure -> altitude differs by more than 1e-6 km", k,
               {"z": z_all, "P": PA, "z_back": zA, "err_km": err})
        ctx.count("roundtrip_z_bad", len(bad))
    bad = np.nonzero(~((PA > 0) & np.isfinite(PA)))[0]
    if len(bad):
        report(SP, "nonpositive-pressure", "pressure not positive and finite at a finite altitude", bad[0], {"z": z_all, "P": PA})
    # monotone up to the tabulated steps
    o = np.argsort(z_all, kind="stable")
    zs, Ps = z_all[o], PA[o]
    with np.errstate(all="ignore"):
        step = Ps[1:] / Ps[:-1] - 1.0
    ctx.extra["max_upward_pressure_step_rel"] = float(np.nanmax(step))
    bad = np.nonzero(~(step <= 3e-7))[0]
    if len(bad):
        k = bad[np.argmax(np.nan_to_num(step[bad], nan=np.inf))]
        ctx.violation(SP, "upward-step>3e-7", "pressure increases with altitude by more than 3e-7 relative",
                      {"z": [float(zs[k]), float(zs[k + 1])], "P": [float(Ps[k]), float(Ps[k + 1])], "step": float(step[k]),
                       "z_hex": [f2h(zs[k]), f2h(zs[k + 1])]})
    # explicit step across each boundary: last double below vs the boundary itself (in h)
    for j in range(1, nb + 1):
        hn = neighbours(Hb[j], 3)
        zz = R * hn / (R - hn)
        pp = fA_p(zz)
        hh = zz * R / (zz + R)
        below = pp[hh < Hb[j]]
        above = pp[hh >= Hb[j]]
        if len(below) and len(above):
            s = float(above[0] / below[-1] - 1.0)
            ctx.extra.setdefault("boundary_steps_rel", {})[f"H={Hb[j]}"] = s
            ctx.case(("step", j))
            if not (s <= 3e-7):
                ctx.violation(SP, "upward-step>3e-7", "pressure steps up across a layer boundary by more than 3e-7 relative",
                              {"boundary_h_km": float(Hb[j]), "step": s, "z": zz.tolist()})
    # ---- model = code, z -> P and P -> z
    Pm = driver_map("atm_p", z_all)
    zm = driver_map("atm_z", PA)
    bad = np.nonzero(~rel_close(Pm, PA, 1e-12))[0]
    for k in bad[:3]:
        ctx.disagree("C19.pressure_from_altitude", {"z": float(z_all[k]), "z_hex": f2h(z_all[k]), "model": float(Pm[k]), "code": float(PA[k])})
    bad = np.nonzero(~(rel_close(zm, zA, 1e-12) | (np.abs(zm - zA) <= 1e-12)))[0]
    for k in bad[:3]:
        ctx.disagree("C19.altitude_from_pressure", {"P": float(PA[k]), "P_hex": f2h(PA[k]), "model": float(zm[k]), "code": float(zA[k])})
    # ---- source tie: both translated copies at Float next to the real functions (every boundary-stream input, a sample of the
    # structured stream); same tolerance as model-vs-code
    import srctie
    finf = lambda k: np.full(k, np.inf)
    ks = np.concatenate([np.arange(min(len(z_bound), len(z_all))), rng.choice(len(z_all), size=min(20000, len(z_all)), replace=False)])
    srctie.compare(ctx, "C19", "pressureFromAltitudeA", [z_all[ks], finf(len(ks))], [PA[ks]], rtol=1e-12)
    srctie.compare(ctx, "C19", "altitudeFromPressureA", [PA[ks], finf(len(ks))], [zA[ks]], rtol=1e-12, atol=1e-12)
    kb = ks[:4000]
    srctie.compare(ctx, "C19", "pressureFromAltitudeB", [z_all[kb], finf(len(kb))], [PB[kb]], rtol=1e-12)
    srctie.compare(ctx, "C19", "altitudeFromPressureB", [PA[kb], finf(len(kb))], [zB[kb]], rtol=1e-12, atol=1e-12)
    ctx.nontrivial.update(("z", k) for k in range(len(np.unique(bits(z_all)))))  # measured number of distinct altitudes
    ctx.case(None, {"op": "z->P->z", "z": float(z_all[0]), "P": float(PA[0]), "z_back": float(zA[0]), "P_model": float(Pm[0])}, n=len(z_all))

    # ------------------------------------------------------------------ P -> z -> P on the real code (both copies)
    p0 = p_all.copy()
    with np.errstate(all="ignore"):
        ZA, ZB = fA_z(p_all), fB_z(p_all)
        QA, QB = fA_p(ZA), fB_p(ZA)
    if not np.array_equal(p0, p_all):
        ctx.violation(SZ, "mutates-input", "input array modified", {})
    if not same_bits(ZA, ZB):
        k = np.nonzero(bits(ZA) != bits(ZB))[0] if np.shape(ZA) == np.shape(ZB) else [0]
        report(SZ, "copies-differ", "the two shipped copies differ bitwise", k[0], {"P": p_all, "z_atmosphere": ZA, "z_eas_optical": ZB})
    if not same_bits(QA, QB):
        k = np.nonzero(bits(QA) != bits(QB))[0] if np.shape(QA) == np.shape(QB) else [0]
        report(SP, "copies-differ", "the two shipped copies differ bitwise", k[0], {"z": ZA, "P_atmosphere": QA, "P_eas_optical": QB})
    with np.errstate(all="ignore"):
        rerr = np.abs(QA - p_all) / p_all
    ctx.extra["max_roundtrip_P_relerr"] = float(np.nanmax(rerr))
    bad = np.nonzero(~(rerr <= 1e-6))[0]
    if len(bad):
        k = bad[np.argmax(np.nan_to_num(rerr[bad], nan=np.inf))]
        report("roundtrip P->z->P", "error>1e-6", "pressure -> altitude -> pressure differs by more than 1e-6 relative", k,
               {"P": p_all, "z": ZA, "P_back": QA, "rel_err": rerr})
    bad = np.nonzero(~(np.isfinite(ZA) & (ZA >= -1e-9)))[0]
    if len(bad):
        report(SZ, "altitude-not-finite", "altitude of a positive pressure <= surface pressure is not finite and >= 0", bad[0], {"P": p_all, "z": ZA})
    Zm = driver_map("atm_z", p_all)
    Qm = driver_map("atm_p", ZA)
    bad = np.nonzero(~(rel_close(Zm, ZA, 1e-12) | (np.abs(Zm - ZA) <= 1e-12)))[0]
    for k in bad[:3]:
        ctx.disagree("C19.altitude_from_pressure", {"P": float(p_all[k]), "P_hex": f2h(p_all[k]), "model": float(Zm[k]), "code": float(ZA[k])})
    bad = np.nonzero(~rel_close(Qm, QA, 1e-12))[0]
    for k in bad[:3]:
        ctx.disagree("C19.pressure_from_altitude", {"z": float(ZA[k]), "z_hex": f2h(ZA[k]), "model": float(Qm[k]), "code": float(QA[k])})
    ks = np.concatenate([np.arange(len(p_bound)), rng.choice(len(p_all), size=min(20000, len(p_all)), replace=False)])
    srctie.compare(ctx, "C19", "altitudeFromPressureA", [p_all[ks], finf(len(ks))], [ZA[ks]], rtol=1e-12, atol=1e-12)
    srctie.compare(ctx, "C19", "pressureFromAltitudeA", [ZA[ks], finf(len(ks))], [QA[ks]], rtol=1e-12)
    kb = ks[:4000]
    srctie.compare(ctx, "C19", "altitudeFromPressureB", [p_all[kb], finf(len(kb))], [ZB[kb]], rtol=1e-12, atol=1e-12)
    srctie.compare(ctx, "C19", "pressureFromAltitudeB", [ZA[kb], finf(len(kb))], [QB[kb]], rtol=1e-12)
    # the end cases z = +inf <-> P = 0 and the malformed inputs of stream (c), through the translated source
    with np.errstate(all="ignore"):
        ez = np.array([np.inf, 0.0, 120.0, 1e6, -1.0, np.nan])
        ep = np.array([0.0, Ptop, 1.0, np.inf, -1.0, np.nan, 5e-324])
        srctie.compare(ctx, "C19", "pressureFromAltitudeA", [ez, finf(len(ez))], [fA_p(ez)], rtol=1e-12)
        srctie.compare(ctx, "C19", "pressureFromAltitudeB", [ez, finf(len(ez))], [fB_p(ez)], rtol=1e-12)
        srctie.compare(ctx, "C19", "altitudeFromPressureA", [ep, finf(len(ep))], [fA_z(ep)], rtol=1e-12, atol=1e-12)
        srctie.compare(ctx, "C19", "altitudeFromPressureB", [ep, finf(len(ep))], [fB_z(ep)], rtol=1e-12, atol=1e-12)
    ctx.nontrivial.update(("P", k) for k in range(len(np.unique(bits(p_all)))))  # measured number of distinct pressures
    ctx.case(None, {"op": "P->z->P", "P": float(p_all[0]), "z": float(ZA[0]), "P_back": float(QA[0]), "z_model": float(Zm[0])}, n=len(p_all))
    # which layers / branches were hit (model's layer choice)
    sub = rng.choice(len(z_all), size=min(20000, len(z_all)), replace=False)
    h_sub = z_all[sub] * R / (z_all[sub] + R)
    lines = ["atm_lh " + fh(h_sub[i:i + 2000]) for i in range(0, len(h_sub), 2000)]
    for toks in run_driver(lines):
        for t in toks:
            ctx.count(f"layer_{t}")

    # ------------------------------------------------------------------ end cases, scalars, shapes (both copies)
    for (fp, fz, tag) in ((fA_p, fA_z, "atmosphere"), (fB_p, fB_z, "eas_optical")):
        with np.errstate(all="ignore"):
            p_inf, z_zero = fp(np.inf), fz(0.0)
            mix_p = fp(np.array([0.0, np.inf, 50.0, np.inf]))
            mix_z = fz(np.array([Ptop, 0.0, 1.0, 0.0]))
        ctx.case(("end", tag), {"op": "end cases", "copy": tag, "P(inf)": float(p_inf), "z(0)": float(z_zero)})
        if not (float(p_inf) == 0.0 and float(z_zero) == np.inf and mix_p[1] == 0.0 and mix_p[3] == 0.0 and mix_p[0] == Ptop
                and mix_z[1] == np.inf and mix_z[3] == np.inf and mix_z[0] == 0.0):
            ctx.violation(SP, "end-cases", "z = +inf <-> P = 0 end cases wrong",
                          {"copy": tag, "P(inf)": float(p_inf), "z(0)": float(z_zero), "mix_p": mix_p.tolist(), "mix_z": mix_z.tolist()})
        if not (float(fz(fp(np.inf))) == np.inf and float(fp(fz(0.0))) == 0.0):
            ctx.violation(SP, "end-cases", "end cases do not round-trip", {"copy": tag})
        purity_and_order(ctx, fp, fz, tag, Ptop)
        # the same values whatever numpy floating-point error state the caller has in force (a caller that turns IEEE flags
        # into exceptions — np.errstate(all='raise') — must get the same numbers, end cases included)
        sweep_z = np.concatenate([[0.0, np.inf, 120.0], rng.uniform(0.0, 120.0, 200)])
        sweep_p = np.concatenate([[0.0, Ptop, 101325.0], 10 ** rng.uniform(-3.0, 5.0, 200)])
        with np.errstate(all="ignore"):
            ref_p, ref_z = fp(sweep_z), fz(sweep_p)
        for state in ("raise", "warn"):
            ctx.case(("errstate", tag, state), None)
            ctx.count("errstate_" + state)
            try:
                with warnings.catch_warnings():
                    warnings.simplefilter("error")
                    with np.errstate(all=state):
                        got_p, got_z = fp(sweep_z), fz(sweep_p)
                        s_p, s_z = fp(np.inf), fz(0.0)
                if not (same_bits(got_p, ref_p) and same_bits(got_z, ref_z) and float(s_p) == 0.0 and float(s_z) == np.inf):
                    ctx.violation(SP, "depends-on-numpy-error-state", f"values differ under np.errstate(all='{state}')", {"copy": tag, "state": state})
            except Exception as ex:  # noqa
                ctx.violation(SP, "depends-on-numpy-error-state",
                              f"under np.errstate(all='{state}') (IEEE flags turned into {'exceptions' if state == 'raise' else 'warnings, warnings into errors'}) the call fails: {type(ex).__name__}: {str(ex)[:100]}",
                              {"copy": tag, "state": state, "altitudes": "0, +inf, 120, 200 in [0,120] km", "pressures": "0, P(120 km), 101325, 200 in [1e-3, 1e5] Pa"})
        # scalars (python float, np.float64, 0-d array), list, 2-d array: bit-identical with the vector result
        idx = rng.choice(len(z_all), size=150, replace=False)
        zz, qq = z_all[idx], p_all[idx % len(p_all)]
        with np.errstate(all="ignore"):
            pv, zv = fp(zz), fz(qq)  # the same copy's vector results
        for k in range(len(idx)):
            forms = (float(zz[k]), np.float64(zz[k]), np.array(zz[k]))
            for form in forms:
                r = fp(form)
                if not (np.shape(r) == () and bits(r).ravel()[0] == bits(pv[k:k + 1])[0]):
                    ctx.violation(SP, "scalar-vs-array", "scalar call differs from the array call",
                                  {"copy": tag, "z": float(zz[k]), "scalar": float(r), "array": float(pv[k]), "form": type(form).__name__})
            for form in (float(qq[k]), np.float64(qq[k]), np.array(qq[k])):
                r = fz(form)
                if not (np.shape(r) == () and bits(r).ravel()[0] == bits(zv[k:k + 1])[0]):
                    ctx.violation(SZ, "scalar-vs-array", "scalar call differs from the array call",
                                  {"copy": tag, "P": float(qq[k]), "scalar": float(r), "array": float(zv[k]), "form": type(form).__name__})
            ctx.case(("scalar", tag, f2h(zz[k])))
        r2 = fp(zz[:12].reshape(3, 4))
        rl = fp(list(map(float, zz[:12])))
        if not (same_bits(r2, pv[:12].reshape(3, 4)) and same_bits(rl, pv[:12])):
            ctx.violation(SP, "scalar-vs-array", "2-d array / list call differs from the vector call", {"copy": tag})
        r2 = fz(qq[:12].reshape(3, 4))
        if not same_bits(r2, zv[:12].reshape(3, 4)):
            ctx.violation(SZ, "scalar-vs-array", "2-d array call differs from the vector call", {"copy": tag})
        # arrays that are not in C memory order (transposed / Fortran-ordered / swapped axes / strided views): element [i,j,…] of
        # the result is the value for element [i,j,…] of the input
        zc = zz[:24].reshape(2, 3, 4); qc = qq[:24].reshape(2, 3, 4)
        pc, zvc = pv[:24].reshape(2, 3, 4), zv[:24].reshape(2, 3, 4)
        views = [("transposed", lambda a: a.T), ("fortran", lambda a: np.asfortranarray(a)), ("swapaxes", lambda a: a.swapaxes(0, 2)),
                 ("strided", lambda a: a[:, ::2, ::-1]), ("2d-transposed", lambda a: a.reshape(6, 4).T), ("2d-fortran", lambda a: np.asfortranarray(a.reshape(4, 6)))]
        for vn, vf in views:
            ctx.case(("memory-order", tag, vn)); ctx.count("memory_order_views")
            with np.errstate(all="ignore"):
                if not same_bits(np.ascontiguousarray(fp(vf(zc))), np.ascontiguousarray(vf(pc))):
                    ctx.violation(SP, "memory-order", f"result for a {vn} array is not element-wise the result of the vector call", {"copy": tag, "view": vn})
                if not same_bits(np.ascontiguousarray(fz(vf(qc))), np.ascontiguousarray(vf(zvc))):
                    ctx.violation(SZ, "memory-order", f"result for a {vn} array is not element-wise the result of the vector call", {"copy": tag, "view": vn})
        # single-precision inputs are those altitudes / pressures (cloud-top altitudes are np.single in this code base)
        z32 = zz[:60].astype(np.float32); q32 = qq[:60].astype(np.float32)
        with np.errstate(all="ignore"):
            a32, a64 = np.asarray(fp(z32), dtype=np.float64), np.asarray(fp(z32.astype(np.float64)), dtype=np.float64)
            b32, b64 = np.asarray(fz(q32), dtype=np.float64), np.asarray(fz(q32.astype(np.float64)), dtype=np.float64)
        ctx.case(("float32", tag)); ctx.count("float32_inputs", 120)
        kbad = np.nonzero(~np.isclose(a32, a64, rtol=1e-9, atol=0))[0]
        if len(kbad):
            k_ = int(kbad[0])
            ctx.violation(SP, "float32-input", "pressure for a single-precision altitude differs from the pressure for the same altitude in double precision",
                          {"copy": tag, "z": float(z32[k_]), "P_float32_input": float(a32[k_]), "P_float64_input": float(a64[k_])})
        fin = np.isfinite(b64)
        kbad = np.nonzero(~np.isclose(b32[fin], b64[fin], rtol=0, atol=1e-6))[0]
        if len(kbad):
            k_ = int(np.nonzero(fin)[0][kbad[0]])
            ctx.violation(SZ, "float32-input", "altitude for a single-precision pressure differs by more than 1e-6 km from the altitude for the same pressure in double precision",
                          {"copy": tag, "P": float(q32[k_]), "z_float32_input": float(b32[k_]), "z_float64_input": float(b64[k_])})
        ctx.count("scalar_forms", 6 * len(idx))
        # model end cases
    m_end = run_driver([f"atm_p {f2h(np.inf)}", f"atm_z {f2h(0.0)}"])
    if not (h2f(m_end[0][0]) == 0.0 and h2f(m_end[1][0]) == np.inf):
        ctx.disagree("C19.end-cases", {"model": [h2f(m_end[0][0]), h2f(m_end[1][0])]})

    # ------------------------------------------------------------------ exotic / malformed inputs
    # (a) integer-valued inputs: an altitude of 5 km given as a python int or an integer array is an altitude
    for tag, fp, fz in (("atmosphere", fA_p, fA_z), ("eas_optical", fB_p, fB_z)):
        for form in (5, np.array([0, 11, 20]), np.int64(47)):
            ctx.count("integer_input")
            try:
                with np.errstate(all="ignore"):
                    r = fp(form)
                ref = fA_p(np.asarray(form, dtype=np.float64))
                if not np.allclose(np.asarray(r, dtype=np.float64), ref, rtol=1e-6, atol=0.0):
                    ctx.violation(SP, "integer-input", "integer-typed altitude gives a different pressure than the same float altitude",
                                  {"copy": tag, "z": repr(form), "P": np.asarray(r).tolist(), "P_float": ref.tolist()})
            except Exception as e:
                ctx.count(f"error_{type(e).__name__}")
                ctx.violation(SP, "integer-input", f"integer-typed altitude raises {type(e).__name__}: {e}", {"copy": tag, "z": repr(form)})
            try:
                with np.errstate(all="ignore"):
                    r = fz(form if not isinstance(form, np.ndarray) else form * 100 + 1)
                    ref = fA_z(np.asarray(form if not isinstance(form, np.ndarray) else form * 100 + 1, dtype=np.float64))
                if not np.allclose(np.asarray(r, dtype=np.float64), ref, rtol=1e-9, atol=0.0):
                    ctx.violation(SZ, "integer-input", "integer-typed pressure gives a different altitude than the same float pressure",
                                  {"copy": tag, "P": repr(form), "z": np.asarray(r).tolist(), "z_float": ref.tolist()})
            except Exception as e:
                ctx.count(f"error_{type(e).__name__}")
                ctx.violation(SZ, "integer-input", f"integer-typed pressure raises {type(e).__name__}: {e}", {"copy": tag, "P": repr(form)})
            ctx.case(("int", tag, repr(form)))
    # (b) subnormal pressures are in (0, 101325]
    sub_p = np.array([5e-324, 1e-320, 1e-310, 2.0e-309, float(np.nextafter(tiny, 0.0))])
    with np.errstate(all="ignore"):
        zs_ = fA_z(sub_p)
        back = fA_p(zs_)
    ctx.count("subnormal_pressure", len(sub_p))
    for k in range(len(sub_p)):
        ctx.case(("subnormal", f2h(sub_p[k])))
        if not (np.isfinite(zs_[k]) and abs(back[k] - sub_p[k]) <= 1e-6 * sub_p[k] + 5e-324 * 4):
            ctx.violation(SZ, "subnormal-pressure", "altitude of a subnormal positive pressure is not finite / does not round-trip",
                          {"P": float(sub_p[k]), "P_hex": f2h(sub_p[k]), "z": float(zs_[k]), "P_back": float(back[k])})
    # (c) recorded only: P = +inf, negative, NaN; z negative, NaN, above the range
    rec = {}
    with np.errstate(all="ignore"):
        for name, f, v in (("z(P=+inf)", fA_z, np.inf), ("z(P=-1)", fA_z, -1.0), ("z(P=nan)", fA_z, np.nan),
                           ("P(z=-1)", fA_p, -1.0), ("P(z=nan)", fA_p, np.nan), ("P(z=1e6)", fA_p, 1e6)):
            try:
                a, b = f(v), (fB_z if f is fA_z else fB_p)(v)
                rec[name] = float(a)
                if not same_bits(a, b):
                    ctx.violation(SP if f is fA_p else SZ, "copies-differ", "the two shipped copies differ bitwise on a malformed input", {"input": repr(v)})
                m = h2f(run_driver([("atm_z " if f is fA_z else "atm_p ") + f2h(v)])[0][0])
                if not (rel_close(m, float(a), 1e-12)):
                    ctx.disagree("C19.malformed", {"input": repr(v), "model": m, "code": float(a)})
            except Exception as e:
                rec[name] = f"{type(e).__name__}"
            ctx.count("malformed")
            ctx.case(("malformed", name))
    ctx.extra["malformed_observed"] = rec
    ctx.traces += 4


def search(ctx: Ctx):
    """Failing-input search: the oracle clauses in run() already ran on the real code; widen the streams."""
    try:
        from nuspacesim.simulation.atmosphere import pressure as A_
        from nuspacesim.simulation.eas_optical import atmospheric_models as B_
        with np.errstate(all="ignore"):
            ptop = float(A_.us_std_atm_pressure_from_altitude(120.0))
        for mod_, tag in ((A_, "atmosphere"), (B_, "eas_optical")):
            try:
                purity_and_order(ctx, mod_.us_std_atm_pressure_from_altitude, mod_.us_std_atm_altitude_from_pressure, tag, ptop)
            except Exception as ex:  # noqa
                ctx.violation(NAMES[0], "raises", f"{type(ex).__name__}: {str(ex)[:120]} on arrays with +inf / 0 Pa entries", {"copy": tag})
    except ImportError:
        pass
    if ctx.tier != "thorough" and not ctx.violations:
        ctx.tier = "thorough"
        run(ctx)


if __name__ == "__main__":
    sys.exit(main_for("C19", sys.modules[__name__]))
