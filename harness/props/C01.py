"""C01 — the diffuse geometric acceptance estimator is unbiased: correspondence, weight = integrand x Jacobian on the
real code, image of the cube, and equal-weight quadrature of the real estimator against an independently computed aperture."""
import sys
import warnings

import numpy as np

warnings.filterwarnings("ignore")
from common import *  # noqa
from geo_common import *  # noqa

RULE = ("cases = (altitude, limb angle, cone, azimuth range, u in [0,1]^4) through the real RegionGeom.__init__, throw and "
        "mcintegral (geometry-only return value; per-event weights isolated with a one-hot separation-cosine cut); streams: "
        "structured (random configurations, interior u), boundary (faces u_i in {0,1} for the image of the cube; cone cut "
        "exactly at an event's cosine), quadrature (scrambled Sobol' nets of 2^m points, full cube and cube with u4 >= 0.05); "
        "a case is non-trivial when (configuration, rounded u) is distinct; quadrature points are counted as evaluations, "
        "one distinct case per (configuration, net size, region)")
ASSUMPTIONS = [
    "the finite-difference Jacobian oracle has tolerance 2e-5 + 8 eps / (theta_S * delta theta_S): theta_S is an arccos near 1 at low detector altitudes, so its difference quotient is ill-conditioned there (a false alarm at altitude 0.32 km, seed 3, was removed this way)",
    "exact tie of the cone cut: the model recomputes the tied event's cosine with its own libm, so the model total is accepted with the tied event on either side (false alarm at seed 4 removed); what the code does at the tie is checked on the code's own arrays",
    "the face u4 = 0 (spot on the horizon) is excluded from the pointwise weight identity: there the sampling density "
    "vanishes and the weight cos(theta_TrN)/cos(theta_NV) is unbounded (Jacobian singular); it has measure zero. "
    "Theorem C01.weight_is_integrand_over_density carries the guard costhetaNSubV != 0",
    "the weight behaves like u4^(-1/2) near that face, so the estimator has a logarithmically divergent variance and an "
    "equal-weight rule converges like N^(-1/2) there with heavy-tailed scatter (u4 is therefore placed at the centre of its "
    "stratum of the net): the full-cube quadrature tolerance is 1e-2 / 4e-3 / 2.5e-3 relative at 2^16 / 2^18 / 2^20 points for "
    "cones <= 3 deg and 6e-2 / 3.5e-2 / 2e-2 for wider cones; the same comparison restricted to u4 >= 0.05 (theta_S below the "
    "corresponding colatitude, found by root finding on the CDF, not by the code's cubic solver) is held to 2e-3 / 6e-4 / 1e-4 "
    "(cones <= 3 deg) and 1.2e-2 / 5e-3 / 2e-3 (wider); these are 3-5x the largest differences seen over 8 seeds; all measured "
    "differences are written to coverage.quadrature_rel_errors",
    "finite-difference Jacobian of the real sampling map: central differences with h = 1e-6, compared to 2e-5 relative on "
    "u in [0.02, 0.98]^4",
]
TRUSTED_EXTRA = ["scipy.integrate.quad / brentq and scipy.stats.qmc.Sobol (oracle side only)",
                 "the aperture integral is evaluated by the driver with a midpoint rule (2-D with the azimuth integral in "
                 "closed form, cross-checked against the direct 3-D midpoint rule)"]


# relative tolerance of the quadrature comparison: (cone <= 3 deg, full cube) -> {log2 points: tolerance}; about 3x the
# largest difference observed over the thorough grid (the full-cube rule converges like N^(-1/2), see ASSUMPTIONS)
QUAD_TOL = {(True, True): {16: 1e-2, 18: 4e-3, 20: 2.5e-3}, (True, False): {16: 2e-3, 18: 6e-4, 20: 1e-4},
            (False, True): {16: 6e-2, 18: 3.5e-2, 20: 2e-2}, (False, False): {16: 1.2e-2, 18: 5e-3, 20: 2e-3}}


def regen():
    """Props/C01.lean bridges the constructor (Gen/Src/C01), throw (Gen/Src/C02) and the estimator (Gen/Src/C03): all three
    are regenerated from the working tree"""
    import srctie
    out = {}
    for p in ("C01", "C02", "C03"):
        out.update(srctie.regen(p))
    return out


def src_init(ctx, g, c):
    """`RegionGeom.__init__` as translated from the source (Gen/Src/C01.lean) at Float next to the real constructor; the
    locals the translation also exports (horizon angle, density normalisations) are not attributes of the object: not compared"""
    import srctie
    alt, lat, lon, limb, cone, azi = g._verif_cfg
    real = [g.earth_radius, g.earth_rad_2, g.core_alt, g.minLOSpathLen, g.maxLOSpathLen, g.sinOfMaxThetaTrSubV, g.maxPhiS, g.minPhiS,
            g.mcnorm, g.detLat, g.detLong]
    # Lmin = D cos(a) - sqrt(R^2 - (D sin a)^2) cancels at low altitude: absolute scale D; mcnorm inherits it through the bracket
    D = float(g.core_alt)
    atol = [0.0, 0.0, 0.0, 1e-12 * D, 0.0, 0.0, 0.0, 0.0, 1e-9 * abs(float(g.mcnorm)), 0.0, 0.0]
    srctie.compare(ctx, "C01", "init", [np.array([x]) for x in (alt, limb, cone, azi, lat, lon)],
                   [np.array([float(x)]) for x in real] + [None] * 7, rtol=1e-12, atol=atol + [0.0] * 7)


def src_mcintegral(ctx, g, costheta, got, real_geo_terms=None):
    """`RegionGeom.mcintegral` as translated from the source (Gen/Src/C03.lean, reductions split) at Float next to the real
    call `g.mcintegral(ones, costheta, ones, 0.0, 1.0, 1.0)` whose result is `got`"""
    import srctie
    m = np.asarray(g.event_mask, dtype=bool)
    k = int(m.sum())
    ones = np.ones(k)
    cols = [ones, np.broadcast_to(np.asarray(costheta, dtype=np.float64), (k,)), ones, np.float64(0.0), np.float64(1.0), np.float64(1.0),
            g.costhetaTrSubN[m], g.costhetaNSubV[m], g.costhetaTrSubV[m], np.ones(k, dtype=bool), np.float64(g.mcnorm),
            np.float64(len(g.betaTrSubN))]
    srctie.compare_split(ctx, "C03", "mcDiffuse", cols,
                         [np.sum, np.sum, lambda x: np.var(x, ddof=1), np.count_nonzero], [got[0], got[1], got[2], got[3]],
                         real_terms=None if real_geo_terms is None else [real_geo_terms, None, None, None], rtol=1e-12)


def geo_weights(g):
    """per-event geometric factors of the real mcintegral for the kept events of the last throw (one-hot cone cut)"""
    k = int(np.count_nonzero(g.event_mask))
    n = len(g.betaTrSubN)
    w = np.zeros(k)
    ones = np.ones(k)
    for j in range(k):
        ct = np.full(k, 2.0)
        ct[j] = -1.0
        w[j] = g.mcintegral(ones, ct, ones, 0.0, 1.0, 1.0)[1] * n / g.mcnorm
    return w


def estimator(g, u, costheta=-1.0):
    g.throw(u)
    k = int(np.count_nonzero(g.event_mask))
    ones = np.ones(k)
    return g.mcintegral(ones, costheta, ones, 0.0, 1.0, 1.0)[1]


def indep_norms(alt, limb, cone, azi):
    """normalisations of the four sampling densities by numerical integration, from the geometry only"""
    from scipy.integrate import quad
    R, D = R_KM, R_KM + alt
    ahor = np.arcsin(R / D)
    amin = ahor - limb
    ts_lo = np.arcsin(D / R * np.sin(amin)) - amin
    ts_hi = np.arccos(R / D)

    def cos_nv(ts):
        n = np.array([np.sin(ts), np.cos(ts)])
        d = np.array([0.0, D]) - R * n
        return float(n @ d / np.linalg.norm(d))
    i_th = quad(lambda t: np.sin(t) * np.cos(t), 0.0, cone, epsabs=0, epsrel=1e-13)[0]
    i_ts = quad(lambda t: cos_nv(t) * np.sin(t), ts_lo, ts_hi, epsabs=0, epsrel=1e-13)[0]
    return {"theta": 1 / i_th, "phiTr": 1 / (2 * np.pi), "phiS": 1 / azi, "thetaS": 1 / i_ts, "ts_lo": ts_lo, "ts_hi": ts_hi}


def theta_s_at_cdf(alt, limb, delta):
    """colatitude of the spot whose line-of-sight length has CDF value delta (independent root finding)"""
    from scipy.optimize import brentq
    R, D = R_KM, R_KM + alt
    A = D * D - R * R
    amin = np.arcsin(R / D) - limb
    lmin = D * np.cos(amin) - np.sqrt(R * R - (D * np.sin(amin)) ** 2)
    lmax = np.sqrt(A)
    G = lambda x: 3 * A * x - x ** 3
    b = G(lmax) - G(lmin)
    L = brentq(lambda x: (G(lmax) - G(x)) / b - delta, lmin, lmax, xtol=1e-13 * lmax, rtol=8.9e-16)
    return float(np.arccos((D * D + R * R - L * L) / (2 * R * D)))


def pointwise(ctx, c, nev):
    """weights of the real code vs the model, vs integrand/density and vs integrand x finite-difference Jacobian"""
    alt, lat, lon, limb, cone, azi = c
    rng = ctx.rng
    g = make_geom(*c)
    nm = indep_norms(alt, limb, cone, azi)
    R = g.earth_radius
    # ---- mcnorm: model vs code, and vs the independent normalisations
    m = dict(zip(CONST_FIELDS, [h2f(x) for x in run_driver([f"geoinit {cfg_hex(g)}"])[0]]))
    ctx.case(("mcnorm", c), {"op": "RegionGeom.__init__", "cfg": list(c), "mcnorm": float(g.mcnorm)} if len(ctx.samples) < 1 else None)
    if not close(m["mcnorm"], g.mcnorm, 1e-9):
        ctx.disagree("C01.mcnorm", {"cfg": list(c), "model": m["mcnorm"], "code": float(g.mcnorm)})
    src_init(ctx, g, c)
    want = float(R * R / (nm["theta"] * nm["phiTr"] * nm["phiS"] * nm["thetaS"]))
    if not close(g.mcnorm, want, 1e-8):
        ctx.violation("RegionGeom.__init__", "mcnorm", f"mcnorm = {float(g.mcnorm)!r} but R^2 / prod(1/integral of each sampling density) = {want!r}",
                      {"cfg": list(c), "mcnorm": float(g.mcnorm), "expected": want})
    for nme, val in (("normThetaTrSubV", nm["theta"]), ("normPhiTrSubV", nm["phiTr"]), ("normPhiS", nm["phiS"]), ("normThetaS", nm["thetaS"])):
        if not close(m[nme], val, 1e-8):
            ctx.disagree("C01.norm." + nme, {"cfg": list(c), "model": m[nme], "independent": val})
    # ---- events
    u = rng.uniform(0.02, 0.98, (4, nev))
    # near-limb stream: the weight has an integrable u4^(-1/2) singularity at the limb (u4 -> 0); a share of the events is
    # placed there (log-uniform u4) so that the weight identity is also checked where cos(theta_NV) is small
    nlimb = nev // 3
    u[3, :nlimb] = 10 ** rng.uniform(-12.0, -2.0, nlimb)
    ctx.count("pointwise:near-limb", nlimb)
    g.throw(u)
    arr = ev_arrays(g).copy()
    mask = np.asarray(g.event_mask, dtype=bool).copy()
    w = np.zeros(nev)
    w[mask] = geo_weights(g)
    if mask.any():
        src_mcintegral(ctx, g, -1.0, g.mcintegral(np.ones(int(mask.sum())), -1.0, np.ones(int(mask.sum())), 0.0, 1.0, 1.0), w[mask])
    ch = cfg_hex(g)
    lines = []
    for i in range(nev):
        lines.append(f"geothrow {ch} {fh(u[:, i])}")
        lines.append(f"geoweight {ch} {fh(u[:, i])} {f2h(-1.0)}")
        lines.append(f"georesid {ch} {fh(u[:, i])} {ev_hex(arr[i], mask[i])} {f2h(w[i])}")
    out = run_driver_sharded(lines)
    # finite-difference Jacobian of the REAL sampling map (diagonal: theta_Tr(u1), phi_Tr(u2), phi_S(u3), theta_S(u4))
    h = 1e-6
    g.throw(np.clip(u + h, 0.0, 1.0))
    up = ev_arrays(g).copy()
    g.throw(np.clip(u - h, 0.0, 1.0))
    um = ev_arrays(g).copy()
    jac = np.abs((up[:, 0] - um[:, 0]) * (up[:, 2] - um[:, 2]) * (up[:, 3] - um[:, 3]) * (up[:, 5] - um[:, 5])) / (2 * h) ** 4
    for i in range(nev):
        ui = u[:, i]
        (thTr, cTrV, phTr, phS, L, thS, cNV, cTrN, thTrN, beta, latS, longS, elev, azi_) = arr[i]
        ctx.case(("evt", c[0], c[3], c[4], tuple(np.round(ui, 6))),
                 {"op": "throw+mcintegral", "cfg": list(c), "u": ui.tolist(), "weight": float(w[i]), "event_mask": bool(mask[i])} if i == 0 and len(ctx.samples) < 4 else None)
        ctx.count("pointwise:" + ("kept" if mask[i] else "dropped"))
        # functional: every public array + the weight
        mv, mm = parse_event(out[3 * i])
        tol = field_tolerances(g, ui, arr[i])
        for j, f in enumerate(EV_FIELDS):
            a, b = mv[j], float(arr[i, j])
            d = circ_diff(a, b, 360.0) if f == "longS" else circ_diff(a, b, 2 * np.pi) if f == "aziAngVSubN" else abs(a - b)
            if not (d <= tol[f]):
                ctx.disagree(f"C01.throw.{f}", {"cfg": list(c), "u": ui.tolist(), "u_hex": fh(ui), "model": a, "code": b})
        margin = min(abs(cTrN), abs(beta - 42.0))
        if mm != bool(mask[i]):
            if margin < 1e-9:
                ctx.near_boundary_skipped += 1
                continue
            ctx.disagree("C01.throw.event_mask", {"cfg": list(c), "u": ui.tolist(), "model": mm, "code": bool(mask[i])})
            continue
        wm = h2f(out[3 * i + 1][0])
        if not close(wm, w[i], 1e-9, 1e-12 + 10 * tol["costhetaTrSubN"] / max(abs(cNV * cTrV), 1e-300)):
            ctx.disagree("C01.weight", {"cfg": list(c), "u": ui.tolist(), "u_hex": fh(ui), "model": wm, "code": float(w[i])})
        case = {"cfg": list(c), "u": ui.tolist(), "u_hex": fh(ui), "weight": float(w[i]), "mcnorm": float(g.mcnorm), "event_mask": bool(mask[i]),
                "costhetaTrSubN": float(cTrN), "costhetaNSubV": float(cNV), "costhetaTrSubV": float(cTrV), "thetaS": float(thS), "thetaTrSubV": float(thTr)}
        integrand = R * R * np.sin(thS) * np.sin(thTr) * cTrN
        if not mask[i]:
            # outside the region the weight is 0 and the region indicator is 0: valid iff upward and beta < 42
            valid = (cTrN >= 0) and (np.degrees(np.arcsin(np.clip(cTrN, -1, 1))) < 42.0)
            if valid and margin > 1e-9:
                ctx.violation("RegionGeom.throw", "mask-excludes-valid", "a valid direction (upward, beta < 42 deg) is dropped", case)
            if w[i] != 0.0:
                ctx.violation("RegionGeom.mcintegral", "weight-outside-region", "non-zero weight for a dropped event", case)
            continue
        # relational (driver, on the code's outputs): weight * mcnorm * prod(densities) = integrand
        res = [h2f(x) for x in out[3 * i + 2]]
        scale = abs(integrand) / (R * R)
        if abs(res[5]) > 1e-9 * scale + 1e-15:
            ctx.violation("RegionGeom.mcintegral", "relation:weight-norm-density", f"weight*mcnorm*prod(pdf) - integrand = {res[5]:.3g} R^2 (integrand {scale:.3g} R^2)", case)
        # oracle 1: independent densities
        dens = (nm["theta"] * np.sin(thTr) * np.cos(thTr)) * nm["phiTr"] * nm["phiS"] * (nm["thetaS"] * cNV * np.sin(thS))
        if abs(w[i] * g.mcnorm * dens - integrand) > 1e-7 * abs(integrand) + 1e-15 * R * R:
            ctx.violation("RegionGeom.mcintegral", "weight-vs-integrand-over-density",
                          f"weight*mcnorm*prod(pdf) = {float(w[i]*g.mcnorm*dens)!r} but integrand R^2 sin(thS) sin(thTr) cos(thTrN) = {float(integrand)!r}", case)
        # oracle 2: integrand x Jacobian of the real sampling map (finite differences); skip if a neighbour changed validity
        # conditioning of the difference quotient: theta_S comes out of an arccos, so it carries an absolute error of about
        # eps/theta_S, which the quotient divides by the (tiny, at low altitude) increment of theta_S
        d_thS = abs(up[i, 5] - um[i, 5])
        fd_tol = 2e-5 + (8 * 2.3e-16 / (max(thS, 1e-300) * d_thS) if d_thS > 0 else np.inf)
        if u[3, i] > 0.01 and abs(w[i] * g.mcnorm - integrand * jac[i]) > fd_tol * abs(integrand * jac[i]) + 1e-12:
            ctx.violation("RegionGeom.mcintegral", "weight-vs-integrand-times-jacobian",
                          f"weight*mcnorm = {float(w[i]*g.mcnorm)!r} but integrand x |d(thTr,phTr,phS,thS)/du| = {float(integrand*jac[i])!r}", case)
    # ---- batch integral, with and without a cutting cosine; exact tie on the cut
    for tag, ct in (("no-cut", -1.0), ("cut", float(np.cos(0.6 * cone))), ("tie", None)):
        nb = 48
        ub = rng.uniform(0.02, 0.98, (4, nb))
        g.throw(ub)
        k = int(np.count_nonzero(g.event_mask))
        if k == 0:
            continue
        if ct is None:
            ct = float(g.costhetaTrSubV[g.event_mask][0])  # an event exactly on the cut is NOT cut (strict <)
        got_ = g.mcintegral(np.ones(k), ct, np.ones(k), 0.0, 1.0, 1.0)
        code = got_[1]
        src_mcintegral(ctx, g, ct, got_)
        o = run_driver([f"geomcint {ch} {f2h(ct)} {nb} {fh(ub.T)}"])[0]
        ctx.case(("batch", c[0], c[4], tag), None)
        ctx.count("batch:" + tag)
        agree = close(h2f(o[0]), code, 1e-9) and int(o[1]) == k
        if not agree and tag == "tie" and int(o[1]) == k:
            # the model recomputes cos(theta_TrV) of the tied event with its own libm: a last-ulp difference from numpy's value puts
            # that one event on the other side of the exact tie. Accept the model total with the tied event cut as well (what the
            # CODE does at the tie is decided by the property-level check on the code's own arrays just below).
            wt_ = g.costhetaTrSubN[g.event_mask] / g.costhetaNSubV[g.event_mask] / g.costhetaTrSubV[g.event_mask]
            cut_ = np.where(g.costhetaTrSubV[g.event_mask] <= ct, 0.0, wt_)
            agree = close(h2f(o[0]), cut_.sum() * g.mcnorm / nb, 1e-9)
            ctx.near_boundary_skipped += 1
        if not agree:
            ctx.disagree("C01.mcintegral." + tag, {"cfg": list(c), "costheta": ct, "model": [h2f(o[0]), int(o[1])], "code": [float(code), k]})
        # property-level: geometry-only integral = mcnorm/N * sum of the weights of kept, uncut events
        wts = g.costhetaTrSubN[g.event_mask] / g.costhetaNSubV[g.event_mask] / g.costhetaTrSubV[g.event_mask]
        wts = np.where(g.costhetaTrSubV[g.event_mask] < ct, 0.0, wts)
        if not close(code, wts.sum() * g.mcnorm / nb, 1e-12):
            ctx.violation("RegionGeom.mcintegral", "geo-only-sum", "geometry-only integral is not mcnorm/N * sum of weights (division by the number thrown)", {"cfg": list(c), "costheta": ct})
        # the geometry-only value has nothing to do with the trigger values: whole-number counts, flags, any threshold
        for tnm, trg, thr_ in (("int64 counts", np.arange(k, dtype=np.int64) % 5, 2), ("bool flags", (np.arange(k) % 2).astype(bool), 0.5),
                              ("float32", np.ones(k, dtype=np.float32), 0.0)):
            code2 = g.mcintegral(trg, ct, np.ones(k), thr_, 1.0, 1.0)[1]
            ctx.count("geo-only-with-" + tnm.split()[0] + "-triggers")
            if not close(code2, code, 1e-12):
                ctx.violation("RegionGeom.mcintegral", "geo-only-depends-on-trigger-values",
                              f"the geometry-only integral changes ({float(code)!r} -> {float(code2)!r}) when the trigger values are {tnm}",
                              {"cfg": list(c), "costheta": ct, "trigger_values": tnm, "events": k})
                break
    # ---- image of the cube: faces map to the ends of the region, monotone in between
    lv = np.linspace(0.0, 1.0, 41)
    uu = np.stack([lv, lv, lv, lv])
    g.throw(uu)
    a = ev_arrays(g)
    ends = {"thetaTrSubV": (0.0, cone), "phiTrSubV": (0.0, 2 * np.pi), "phiS": (-azi / 2, azi / 2), "thetaS": (nm["ts_hi"], nm["ts_lo"])}
    for f, (lo, hi) in ends.items():
        col = a[:, EV_FIELDS.index(f)]
        ctx.case(("image", c[0], c[3], c[4], f), None)
        # at u4 = 0 the root sits at arccos(-1 + O(eps)): L, hence theta_S, is only good to sqrt(eps) there (second order in CDF space)
        rt = 1e-7 if f == "thetaS" else 1e-9
        ok = close(col[0], lo, rt, 1e-9) and close(col[-1], hi, 1e-9, 1e-9) and (np.all(np.diff(col) > 0) if hi > lo else np.all(np.diff(col) < 0))
        if not ok:
            ctx.violation("RegionGeom.throw", "image:" + f, f"{f} does not map [0,1] monotonically onto [{float(lo)!r}, {float(hi)!r}]: ends {float(col[0])!r}, {float(col[-1])!r}", {"cfg": list(c)})


def quadrature(ctx, alt, limb, cone, azi, m, delta_list=(0.0, 0.05)):
    """equal-weight quadrature of the REAL estimator on a scrambled Sobol' net vs the driver's aperture integral"""
    from scipy.stats import qmc
    g = make_geom(alt, limb=limb, cone=cone, azi=azi)
    n2 = 1000
    lines = []
    for d in delta_list:
        extra = "" if d == 0.0 else " " + f2h(theta_s_at_cdf(alt, limb, d))
        lines.append(f"geoaper2 {fh([alt, limb, cone, azi])} {n2} {n2}{extra}")
    lines.append(f"geoaper3 {fh([alt, limb, cone, azi])} 160 96 128")
    out = [h2f(x[0]) for x in run_driver_sharded(lines, shards=len(lines))]
    a3 = out[-1]
    res = {}
    u = qmc.Sobol(4, scramble=True, seed=ctx.rng).random_base2(m).T
    # every 1-D projection of the net has exactly one point per stratum [k/N, (k+1)/N): put u4 at the stratum centre, so that
    # no point comes arbitrarily close to the singular face u4 = 0 (a single point at u4 ~ 1e-9 would shift the mean by 1e-2)
    u[3] = (np.floor(u[3] * 2 ** m) + 0.5) / 2 ** m
    for d, ap in zip(delta_list, out):
        uu = u.copy()
        uu[3] = d + (1 - d) * uu[3]
        est = (1 - d) * estimator(g, uu)
        rel = est / ap - 1
        res[d] = rel
        tol = QUAD_TOL[(cone <= np.radians(3.0) + 1e-12, d == 0.0)][m]
        ctx.case(("quad", alt, limb, cone, azi, m, d),
                 {"op": "quadrature", "altitude": alt, "limb": limb, "cone": cone, "azimuth": azi, "points": 2 ** m, "u4_min": d,
                  "estimator": float(est), "aperture": ap, "rel": float(rel)} if len(ctx.samples) < 6 else None, n=2 ** m)
        ctx.count(f"quadrature:2^{m}:u4>={d}")
        ctx.extra.setdefault("quadrature_rel_errors", []).append([alt, round(np.degrees(limb), 3), round(np.degrees(cone), 3), round(np.degrees(azi), 1), m, d, float(rel)])
        if not abs(rel) <= tol:
            ctx.violation("RegionGeom.throw+mcintegral", f"quadrature:u4>={d}",
                          f"equal-weight quadrature of the estimator ({2**m} points) = {float(est)!r}, independently computed aperture = {ap!r} (relative difference {rel:.3g}, tolerance {tol:g})",
                          {"altitude": alt, "limb": limb, "cone": cone, "azimuth": azi, "points": 2 ** m, "u4_min": d, "estimator": float(est), "aperture": ap})
    if not close(a3, out[0], 2e-3):
        ctx.disagree("C01.aperture-2D-vs-3D", {"cfg": [alt, limb, cone, azi], "aper2": out[0], "aper3": a3})
    return res


def run(ctx: Ctx):
    rng = ctx.rng
    # ---- pointwise stream
    ncfg = 40 if ctx.thorough else 14
    nev = 150 if ctx.thorough else 60
    fixed = [(525.0, 0.0, 0.0, 0.12217304763960307, 0.05235987755982989, 2 * np.pi),
             (33.0, 0.5, 1.0, np.radians(5.0), np.radians(1.5), 2 * np.pi),
             (5.0, -0.3, 2.0, np.radians(1.0), np.radians(0.5), np.radians(10.0)),
             (1000.0, 1.0, -1.0, np.radians(20.0), np.radians(30.0), 2 * np.pi),
             (36000.0, 0.0, 0.0, np.radians(7.0), np.radians(80.0), np.radians(90.0))]
    cfgs = list(fixed)
    while len(cfgs) < ncfg:
        alt = float(10 ** rng.uniform(-0.5, np.log10(36000.0)))
        ah = horizon_nadir(alt)
        cfgs.append((alt, float(rng.uniform(-1.5, 1.5)), float(rng.uniform(-3.1, 3.1)), float(rng.uniform(0.02, 0.9) * min(ah, np.radians(25.0))),
                     float(np.radians(rng.choice([0.5, 1.5, 3.0, 10.0, 30.0, 80.0]))), float(np.radians(rng.choice([10.0, 90.0, 360.0])))))
    # an altitude scan at a fixed simulation section (objects built one after the other in one process: the constants of
    # each must be its own), then the mixed configurations
    dflt = (np.radians(7.0), np.radians(3.0), 2 * np.pi)
    for alt in (525.0, 33.0, 1000.0, 525.0, 3.0):
        pointwise(ctx, (alt, 0.0, 0.0, *dflt), max(12, nev // 4))
        ctx.count("altitude-scan-same-simulation-section")
    for c in cfgs:
        pointwise(ctx, c, nev)
    # ---- a geometry object that was copied or pickled between throw() and mcintegral() (handed to a worker process, kept in a
    # checkpoint): the estimate is the one of the original object
    import copy
    import pickle
    for c in cfgs[:3] + [(525.0, 0.0, 0.0, float(np.radians(0.5)), float(np.radians(3.0)), 2 * np.pi)]:
        g_ = make_geom(*c)
        g_.throw(rng.random((4, 400)))
        k_ = int(np.count_nonzero(g_.event_mask))
        if k_ == 0:
            continue
        ones_ = np.ones(k_)
        ref_ = g_.mcintegral(ones_, -1.0, ones_, 0.0, 1.0, 1.0)
        for how, mk in (("pickle round trip", lambda o: pickle.loads(pickle.dumps(o))), ("copy.deepcopy", copy.deepcopy), ("copy.copy", copy.copy)):
            ctx.case(("copied-geometry", c[0], how)); ctx.count("copied_geometry_objects")
            try:
                g2 = mk(g_)
                got_ = g2.mcintegral(ones_, -1.0, ones_, 0.0, 1.0, 1.0)
            except Exception as ex:  # noqa
                ctx.notes.append(f"{how} of a RegionGeom raised {type(ex).__name__} (not required by the property)")
                continue
            if not (close(got_[1], ref_[1], 1e-12) and close(got_[0], ref_[0], 1e-12) and int(got_[2]) == int(ref_[2])):
                ctx.violation("RegionGeom.mcintegral", "estimate-changes-after-copying-the-object",
                              f"after a {how} of the geometry object the geometric estimate is {float(got_[1])!r} instead of {float(ref_[1])!r} (thrown 400, kept {k_})",
                              {"cfg": list(c), "how": how, "thrown": 400, "kept": k_, "estimate_original": float(ref_[1]), "estimate_copy": float(got_[1])})
                break
    # ---- one configuration object re-used for several geometries (its altitude set in turn, the geometries evaluated afterwards):
    # whichever altitude an object goes by — the one at construction or the one in force at the call — its normalisation
    # constant and its events must go by the SAME one
    import nuspacesim as nss
    from nuspacesim.simulation.geometry.region_geometry import RegionGeom
    shared = nss.NssConfig()
    objs = []
    for alt_ in (33.0, 525.0, 1000.0, 600.0):
        shared.detector.initial_position.altitude = alt_
        objs.append((alt_, RegionGeom(shared)))
    last_alt = 600.0
    u_s = rng.uniform(0.05, 0.95, (4, 24))
    limb_, cone_, azi_ = float(shared.simulation.angle_from_limb), float(shared.simulation.max_cherenkov_angle), float(shared.simulation.max_azimuth_angle)
    iL, iC = EV_FIELDS.index("losPathLen"), EV_FIELDS.index("costhetaNSubV")
    for alt_, g_ in objs:
        g_.throw(u_s.copy())
        code_L, code_c = np.asarray(g_.losPathLen, dtype=np.float64), np.asarray(g_.costhetaNSubV, dtype=np.float64)
        verdict = {}
        for tag, a_ in (("altitude at construction", alt_), ("altitude in force at the call", last_alt)):
            hexc = fh((a_, 0.0, 0.0, limb_, cone_, azi_))
            m_ = dict(zip(CONST_FIELDS, [h2f(x) for x in run_driver([f"geoinit {hexc}"])[0]]))
            ev_ = np.array([parse_event(o)[0] for o in run_driver([f"geothrow {hexc} {fh(u_s[:, i])}" for i in range(u_s.shape[1])])])
            verdict[tag] = (bool(np.allclose(ev_[:, iL], code_L, rtol=1e-9, atol=0) and np.allclose(ev_[:, iC], code_c, rtol=1e-7, atol=1e-12)),
                            bool(close(m_["mcnorm"], g_.mcnorm, 1e-9)))
        ctx.case(("shared-config", alt_), None)
        ctx.count("shared_config_objects")
        if not any(ev_ok and norm_ok for ev_ok, norm_ok in verdict.values()):
            ctx.violation("RegionGeom", "events-and-normalisation-go-by-different-altitudes",
                          "a geometry built from a configuration object whose altitude was changed afterwards throws its events for one altitude and normalises them for another",
                          {"altitude_at_construction": alt_, "altitude_in_force_at_the_call": last_alt,
                           "events_match / mcnorm_matches": {k_: list(v_) for k_, v_ in verdict.items()}, "mcnorm": float(g_.mcnorm), "losPathLen_head": code_L[:3].tolist()})
            break
    # ---- quadrature
    if ctx.thorough:
        grid = [(a, np.radians(l), np.radians(cn), np.radians(az)) for a in (5.0, 33.0, 525.0, 1000.0, 36000.0) for l in (1.0, 7.0, 20.0)
                for cn in (0.5, 3.0, 30.0, 80.0) for az in (10.0, 360.0)]
        big = {(525.0, 7.0, 3.0, 360.0), (33.0, 7.0, 3.0, 360.0), (5.0, 1.0, 0.5, 10.0), (1000.0, 20.0, 30.0, 360.0), (36000.0, 7.0, 80.0, 360.0), (5.0, 20.0, 80.0, 10.0)}
        for (a, l, cn, az) in grid:
            if not l < horizon_nadir(a):
                ctx.count("quadrature:skipped-limb>=horizon")
                continue
            key = (a, round(np.degrees(l), 6), round(np.degrees(cn), 6), round(np.degrees(az), 6))
            quadrature(ctx, a, l, cn, az, 20 if key in big else 18)
    else:
        for (a, l, cn, az) in [(525.0, 7.0, 3.0, 360.0), (33.0, 7.0, 30.0, 360.0), (1000.0, 1.0, 80.0, 10.0)]:
            quadrature(ctx, a, np.radians(l), np.radians(cn), np.radians(az), 16)
    ctx.traces += len(cfgs)


def search(ctx: Ctx):
    """failing-input search: more configurations and the quadrature grid"""
    if ctx.tier != "thorough":
        ctx.tier = "thorough"
        run(ctx)


if __name__ == "__main__":
    sys.exit(main_for("C01", sys.modules[__name__]))
