"""C15 — configuration survives the TOML round trip and units are honoured.

Real code: create_toml / config_from_toml / NssConfig validators / `nuspacesim create-config` (click CliRunner).
Model: Model/Config.lean (`dump`, `load`, unit table, month table) through the native driver.
"""
import calendar
import math
import os
import sys
import tempfile
import warnings

import numpy as np

warnings.filterwarnings("ignore")
from common import *  # noqa
from cfgtree import *  # noqa

RULE = ("streams: (structured) random valid configurations of every spectrum/cloud variant with strings containing quotes, "
        "backslashes, control and non-ASCII characters, +-inf mono-cloud altitude -> real create_toml -> config_from_toml, every "
        "field compared exactly except radian fields (relative 1e-15), and the model's dump/load on the same configuration; "
        "(boundary) every row of the model's unit table x every dimensional field through the real validators and astropy's "
        "own conversion, equal / inverted / unit-mixed frequency bands, all month spellings; (malformed) incompatible and "
        "unparseable units, months 0, 13, 'Janu', ' 3', bad union tags, None optional sections. A case is non-trivial when "
        "its (field, unit / variant / string class) key is distinct.")
ASSUMPTIONS = [
    "the number <-> text conversion inside str(Quantity) / Quantity(str) (Python repr round trip of a double) is a library "
    "contract (Val.qty in the model); it is exercised on the real code by every round-trip case, not proved",
    "tomli_w / tomllib are parameters with the contract tree in = tree out; explored with nasty strings, not proved",
    "the model's unit table is a finite sample (187 spellings) of astropy's unit grammar; each row is checked against astropy "
    "on every run; units outside the table are 'unknown' to the model",
    "pydantic's lax coercions (numeric strings for plain float fields, integral floats for int fields, 'yes' for bool) are "
    "not modelled; the model rejects them with kind 'type' and the harness does not generate them",
    "radian fields: relative tolerance 1e-15 (the property says 1 ulp-scale; the real deg/rad text conversion is measured "
    "each run, see coverage.max_rel_err_angle)",
    "lone surrogate code points are not generated (not encodable as UTF-8 text, rejected by tomli_w by design)",
]
TRUSTED_EXTRA = ["astropy.units (conversion factors), pydantic (validation order), tomli_w/tomllib: parameters with stated contracts"]

ANGLE_TOL = 1e-15


def _imports():
    import nuspacesim as nss
    from nuspacesim import config as cfgmod
    return nss, cfgmod


def err_kind(e: Exception) -> str:
    s = str(e)
    if "are not convertible" in s:
        return "unit-incompatible"
    if "did not parse as unit" in s or "Cannot parse" in s or "not a valid unit" in s:
        return "unit-unknown"
    if "High frequency must be greater" in s:
        return "band"
    if "is invalid [type=value_error" in s or "does not match valid month patterns" in s:
        return "month"
    if "union_tag_not_found" in s:
        return "tag-missing"
    if "union_tag_invalid" in s:
        return "tag-invalid"
    if "literal_error" in s:
        return "literal"
    if type(e).__name__ == "ValidationError":
        return "type"
    return "exc:" + type(e).__name__


def real_load(cfgmod, tree):
    try:
        return "ok", cfgmod.NssConfig(**tree)
    except Exception as e:  # noqa
        return "err", err_kind(e)


def model_res(toks):
    if toks[0] == "ok":
        return "ok", dec(toks[1:])[0]
    return "err", toks[1] if len(toks) > 1 else toks[0]


# --------------------------------------------------------------------------- pieces


def check_defaults(ctx, cfgmod):
    d, _ = dec(run_driver(["c15.default"])[0])
    r = floatify(raw_of(cfgmod.NssConfig()))
    diff = tree_diff(d, r)
    ctx.case(("defaults",), {"op": "NssConfig()", "differences": len(diff)})
    for p, a, b in diff:
        ctx.disagree("C15.defaults", {"path": p, "model": a, "code": b})


FIELD_OF_DIM = {
    "length": ("detector", "initial_position", "altitude"),
    "angle": ("detector", "initial_position", "latitude"),
    "area": ("detector", "optical", "telescope_effective_area"),
    "freq": ("detector", "radio", "low_frequency"),
    "power": ("detector", "radio", "gain"),
}


def real_field(cfgmod, dim, value):
    """send `value` through the real before-validator of a field of dimension `dim`"""
    D = cfgmod.Detector
    if dim == "length":
        return D.InitialPos(altitude=value).altitude
    if dim == "angle":
        return D.InitialPos(latitude=value).latitude
    if dim == "area":
        return D.Optical(telescope_effective_area=value).telescope_effective_area
    if dim == "freq":
        return D.Radio(low_frequency=value, high_frequency=float("inf")).low_frequency
    return D.Radio(gain=value).gain


def check_units(ctx, cfgmod):
    from astropy import units as u
    from astropy.units import Quantity
    rng = ctx.rng
    rows = []
    for t in run_driver(["c15.units"])[0]:
        n, dim, fac = t[1:].split(":")
        rows.append((unhx(n), dim, h2f(fac)))
    ctx.extra["unit_table_rows"] = len(rows)
    lines, meta = [], []
    reps = 3 if ctx.thorough else 1
    for name, dim, fac in rows:
        for _ in range(reps):
            x = float(rng.choice([rng.uniform(-1000, 1000), round(rng.uniform(0, 100), 2), 1.0, 0.0, -0.0, 1e-30, 1e30]))
            for fdim in CANON:
                lines.append(f"c15.qty {fdim} Q{f2h(x)}:{hx(name)}")
                meta.append((name, dim, fac, x, fdim))
    # unknown spellings, unparseable strings (malformed stream)
    for bad in ["kmm", "MHZ", "Mhz", "mile", "turn", "degrees of arc", "dB(mW)", "km km km/"]:
        for fdim in CANON:
            lines.append(f"c15.qty {fdim} Q{f2h(2.0)}:{hx(bad)}")
            meta.append((bad, "unknown", 1.0, 2.0, fdim))
    out = run_driver(lines)
    _ROUTED["units"].extend(meta)
    for (name, dim, fac, x, fdim), o in zip(meta, out):
        text = f"{x!r} {name}"
        try:
            got = ("ok", float(real_field(cfgmod, fdim, text)))
        except Exception as e:  # noqa
            got = ("err", err_kind(e))
        mod = (o[0], h2f(o[1])) if o[0] == "ok" else ("err", o[1])
        ctx.case(("unit", name, fdim), {"op": "validator", "field": ".".join(FIELD_OF_DIM[fdim]), "input": text,
                                        "code": got, "model": mod} if name in ("arcmin", "s") and fdim in ("angle", "length") else None)
        ctx.count(f"unit_{'compatible' if dim == fdim else ('unknown' if dim == 'unknown' else 'incompatible')}")
        # model vs code
        if got[0] != mod[0] or (got[0] == "ok" and not same_float(got[1], mod[1], 1e-15)) or \
                (got[0] == "err" and got[1] != mod[1] and not got[1].startswith("exc:")):
            ctx.disagree("C15.units", {"input": text, "field_dim": fdim, "code": got, "model": mod})
        # property oracle on the real code: value = astropy's conversion (independent route: no string parsing of the number)
        try:
            ref = ("ok", float((x * u.Unit(name)).to(u.Unit(CANON[fdim])).value))
        except Exception:  # noqa
            ref = ("err",)
        case = {"field": ".".join(FIELD_OF_DIM[fdim]), "input": text, "code": got, "astropy": ref}
        if ref[0] == "ok":
            if got[0] != "ok":
                ctx.violation("parse_units", "compatible-unit-rejected", "a unit convertible to the canonical unit is rejected", case)
            elif not same_float(got[1], ref[1], 4e-16):
                ctx.violation("parse_units", "unit-value", "stored value differs from astropy's conversion", case)
        elif got[0] == "ok":
            ctx.violation("parse_units", "incompatible-unit-accepted", "an incompatible / unparseable unit is accepted", case)
    # bare numbers are taken to be in the canonical unit (floats and ints), exactly
    for fdim in CANON:
        for x in [0.0, 1.0, 525.0, -18.5, float(rng.uniform(-1e3, 1e3)), 1e-300, 7, -3]:
            try:
                got = real_field(cfgmod, fdim, x)
            except Exception as e:  # noqa
                got = err_kind(e)
            tok = f"I{x}" if isinstance(x, int) else f"N{f2h(x)}"
            o = run_driver([f"c15.qty {fdim} {tok}"])[0]
            ctx.case(("bare", fdim, x))
            ctx.count("bare_number")
            if not (isinstance(got, float) and got == float(x) and math.copysign(1, got) == math.copysign(1, float(x))):
                ctx.violation("parse_units", "bare-number", "a bare number is not stored unchanged in the canonical unit",
                              {"field": ".".join(FIELD_OF_DIM[fdim]), "input": x, "code": got})
            if not (o[0] == "ok" and isinstance(got, float) and h2f(o[1]) == got):
                ctx.disagree("C15.bare", {"dim": fdim, "input": x, "code": got, "model": o})


def check_every_unit_field(ctx, cfgmod):
    """every field that takes a quantity, not one representative per dimension: the stored value is astropy's conversion to the
    canonical unit (angles beyond a half turn included: 200 deg is 3.49 rad, not -160 deg), bare numbers are stored unchanged"""
    from astropy import units as u
    D, S = cfgmod.Detector, cfgmod.Simulation
    fields = [(D.InitialPos, "altitude", u.km, ["1500 m", "0.5 Mm", 33.0]), (D.InitialPos, "latitude", u.rad, ["45 deg", "-89.5 deg", 0.3]),
              (D.InitialPos, "longitude", u.rad, ["200 deg", "270 deg", "359.5 deg", "-190 deg", "180 deg", 4.0, -3.5, "21600 arcmin"]),
              (D.SunMoon, "sun_alt_cut", u.rad, ["-18 deg", "-1080 arcmin", -0.2]), (D.SunMoon, "moon_alt_cut", u.rad, ["10 deg", "-5 deg", 0.1]),
              (D.SunMoon, "moon_min_phase_angle_cut", u.rad, ["150 deg", "200 deg", 2.0]),
              (D.Optical, "telescope_effective_area", u.m ** 2, ["25000 cm2", 2.5]), (D.Radio, "gain", u.dB, ["3 dB", 1.8]),
              (S.TargetOfOpportunity, "source_RA", u.rad, ["250 deg", "16.5 hourangle", 5.0]), (S.TargetOfOpportunity, "source_DEC", u.rad, ["-60 deg", 0.4]),
              (S, "max_cherenkov_angle", u.rad, ["3 deg", 0.05]), (S, "max_azimuth_angle", u.rad, ["360 deg", "200 deg", 6.0]), (S, "angle_from_limb", u.rad, ["7 deg", 0.1])]
    for cls, name, canon, values in fields:
        for v in values:
            ctx.case(("unit-field", cls.__name__, name, str(v)), None)
            ctx.count("every_unit_field_values")
            want = float(u.Quantity(v).to_value(canon)) if isinstance(v, str) else float(v)
            try:
                got = float(getattr(cls(**{name: v}), name))
            except Exception as e:  # noqa
                ctx.violation("parse_units", "compatible-unit-rejected", f"{cls.__name__}.{name} = {v!r} is rejected: {type(e).__name__}: {str(e)[:80]}",
                              {"field": f"{cls.__name__}.{name}", "input": v})
                continue
            if not same_float(got, want, 4e-16):
                ctx.violation("parse_units", "unit-value" if isinstance(v, str) else "bare-number",
                              f"{cls.__name__}.{name} = {v!r} is stored as {got!r} {canon}, not as {want!r} (astropy's conversion to the canonical unit)",
                              {"field": f"{cls.__name__}.{name}", "input": v, "stored": got, "astropy": want})


def check_band(ctx, cfgmod):
    rng = ctx.rng
    Radio = cfgmod.Detector.Radio
    cases = [(30.0, 300.0), (300.0, 300.0), (301.0, 300.0), (0.0, 5e-324), (5e-324, 0.0), (-1.0, 1.0), (100.0, float(np.nextafter(100.0, 200.0))),
             (float(np.nextafter(100.0, 200.0)), 100.0), ("0.3 GHz", "300 MHz"), ("0.2 GHz", "300 MHz"), ("300 MHz", "0.3 GHz"),
             ("299999 kHz", "0.3 GHz"), ("1 GHz", "999 MHz"), (0.0, float("inf")), (float("inf"), float("inf"))]
    for _ in range(200 if ctx.thorough else 40):
        a = rand_float(rng, 0, 2000)
        b = rand_float(rng, 0, 2000) if rng.random() < 0.7 else a
        cases.append((a, b))
    lines = []
    _ROUTED["bands"].extend(cases)
    for lo, hi in cases:
        tree = {"detector": {"radio": {"low_frequency": lo, "high_frequency": hi}}}
        lines.append("c15.load " + " ".join(enc(tree)))
    out = run_driver(lines)
    for (lo, hi), o in zip(cases, out):
        try:
            r = Radio(low_frequency=lo, high_frequency=hi)
            got = ("ok", r.low_frequency, r.high_frequency)
        except Exception as e:  # noqa
            got = ("err", err_kind(e))
        ms, mv = model_res(o)
        ctx.case(("band", repr(lo), repr(hi)), {"op": "Radio", "low": lo, "high": hi, "code": got[:2]} if lo == 300.0 else None)
        ctx.count("band_" + ("accepted" if got[0] == "ok" else "rejected"))
        if got[0] == "ok":
            if not got[2] > got[1]:
                ctx.violation("Detector.Radio", "band-not-increasing-accepted", "a band with high <= low is accepted", {"low": lo, "high": hi})
            mm = ms == "ok" and same_float(mv["detector"]["radio"]["low_frequency"], got[1], 1e-15) and \
                same_float(mv["detector"]["radio"]["high_frequency"], got[2], 1e-15)
        else:
            # expected rejection only if the canonical values are not increasing
            def mhz(v):
                from astropy.units import Quantity
                return float(Quantity(v).to("MHz").value) if isinstance(v, str) else float(v)
            if mhz(hi) > mhz(lo):
                ctx.violation("Detector.Radio", "valid-band-rejected", "a band with high > low is rejected", {"low": lo, "high": hi, "code": got})
            mm = ms == "err" and mv == got[1]
        if not mm:
            ctx.disagree("C15.band", {"low": lo, "high": hi, "code": got, "model": (ms, mv if ms == "err" else "…")})


def expected_month(v):
    """the property's statement, written independently of the code"""
    if isinstance(v, bool):
        return None
    if isinstance(v, int):
        return v if 1 <= v <= 12 else None
    if isinstance(v, str):
        names = {calendar.month_name[i].lower(): i for i in range(1, 13)}
        abbr = {calendar.month_abbr[i].lower(): i for i in range(1, 13)}
        s = v.lower()
        if s in names:
            return names[s]
        if s in abbr:
            return abbr[s]
        if v.isascii() and v.isdigit() and len(v) <= 2 and 1 <= int(v) <= 12:
            return int(v)
    return None


def check_months(ctx, cfgmod):
    P = cfgmod.Simulation.PressureMapCloud
    cands: list = list(range(-3, 17)) + [100, 2**31, -2**31]
    for i in range(0, 15):
        cands += [str(i), "%02d" % i, "%03d" % i, " %d" % i, "%d " % i]
    for i in range(1, 13):
        for nm in (calendar.month_name[i], calendar.month_abbr[i]):
            cands += [nm, nm.lower(), nm.upper(), nm.swapcase(), nm[:-1], nm + "x", " " + nm, nm + " ", nm[:4], nm[:2]]
    cands += ["", "Janu", "sept", "Sept.", "ſeptember", "Auguſt", "januar", "0x3", "3.0", "+3", "١", "１２", "1２", "²", "Mai", "Dez"]
    cands = list(dict.fromkeys(cands))
    _ROUTED["months"].extend(cands)
    lines = ["c15.month " + ("I%d" % c if isinstance(c, int) else "S" + hx(c)) for c in cands]
    out = run_driver(lines)
    for c, o in zip(cands, out):
        try:
            got = P(month=c).month
        except Exception as e:  # noqa
            got = None
        mod = int(o[1]) if o[0] == "ok" else None
        exp = expected_month(c)
        ctx.case(("month", repr(c)), {"op": "PressureMapCloud(month=…)", "input": c, "code": got, "model": mod} if c in (13, "JAN") else None)
        ctx.count("month_" + ("accepted" if got is not None else "rejected"))
        if got != mod:
            ctx.disagree("C15.month", {"input": c, "code": got, "model": mod})
        if got != exp:
            ctx.violation("PressureMapCloud.valid_month", "accepted-wrongly" if got is not None else "rejected-wrongly",
                          "month validator differs from 'number 1-12, full name or abbreviation'", {"input": c, "code": got, "expected": exp})


def check_unions(ctx, cfgmod):
    S = cfgmod.Simulation
    trees = [
        {"simulation": {"spectrum": {"id": "monospectrum", "log_nu_energy": 9.25}}},
        {"simulation": {"spectrum": {"id": "monospectrum"}}},
        {"simulation": {"spectrum": {"id": "powerspectrum", "index": 2.5, "lower_bound": 7.0, "upper_bound": 11.0}}},
        {"simulation": {"spectrum": {"id": "powerspectrum", "index": 3}}},
        {"simulation": {"spectrum": {"id": "powerspectrum"}}},
        {"simulation": {"spectrum": {"id": "monospectrum", "index": 3.0}}},
        {"simulation": {"spectrum": {"id": "foo"}}},
        {"simulation": {"spectrum": {"log_nu_energy": 3.0}}},
        {"simulation": {"spectrum": {"id": 3}}},
        {"simulation": {"cloud_model": {"id": "no_cloud"}}},
        {"simulation": {"cloud_model": {"id": "monocloud"}}},
        {"simulation": {"cloud_model": {"id": "monocloud", "altitude": 3.5}}},
        {"simulation": {"cloud_model": {"id": "monocloud", "altitude": float("inf")}}},
        {"simulation": {"cloud_model": {"id": "monocloud", "altitude": float("-inf")}}},
        {"simulation": {"cloud_model": {"id": "pressure_map"}}},
        {"simulation": {"cloud_model": {"id": "pressure_map", "month": "Feb", "version": 3}}},
        {"simulation": {"cloud_model": {"id": "pressure_map", "month": 12, "version": "x1"}}},
        {"simulation": {"cloud_model": {"id": "pressure_map", "month": 13}}},
        {"simulation": {"cloud_model": {"id": "pressure_map", "month": "Janu"}}},
        {"simulation": {"cloud_model": {"id": "Monocloud"}}},
        {"simulation": {"cloud_model": {}}},
        {"simulation": {"mode": "Target"}}, {"simulation": {"mode": "diffuse"}}, {"simulation": {"mode": "Diffuse"}},
        {"simulation": {"cherenkov_light_engine": "CHASM"}}, {"simulation": {"tau_shower": {"id": "other"}}},
        {"simulation": {"tau_shower": {"id": "nupyprop", "etau_frac": 0.25, "table_version": "2"}}},
        {"detector": {"initial_position": {"altitude": "5 s"}}}, {"detector": {"initial_position": {"latitude": "5 km"}}},
        {"detector": {"optical": {"telescope_effective_area": "5 m"}}}, {"detector": {"radio": {"gain": "5 km"}}},
        {"detector": {"radio": {"low_frequency": "5 s"}}}, {"detector": {"initial_position": {"altitude": "abc"}}},
        {"detector": {"initial_position": {"altitude": "5"}}}, {"simulation": {"target": {"source_RA": "12 hourangle"}}},
        {"simulation": {"max_cherenkov_angle": "3 deg", "max_azimuth_angle": "1 cycle", "angle_from_limb": "420 arcmin"}},
        {"detector": {"name": 5}}, {"title": {"a": 1}}, {"detector": "x"}, {},
        {"unknown_key": 1, "detector": {"unknown": 2}},
    ]
    out = run_driver(["c15.load " + " ".join(enc(t)) for t in trees])
    _ROUTED["trees"].extend(trees)
    for t, o in zip(trees, out):
        rs, rv = real_load(cfgmod, t)
        ms, mv = model_res(o)
        ctx.case(("tree", repr(t)), {"op": "NssConfig(**tree)", "tree": t, "code": rs if rs == "ok" else rv} if "foo" in repr(t) else None)
        ctx.count("tree_" + (rs if rs == "ok" else rv))
        if rs == "ok":
            diff = tree_diff(mv, floatify(raw_of(rv)), rtol=1e-15) if ms == "ok" else [("status", ms, mv)]
            if diff:
                ctx.disagree("C15.load", {"tree": t, "diff": diff[:3]})
        else:
            if ms != "err" or (mv != rv and not rv.startswith("exc:")):
                ctx.disagree("C15.load", {"tree": t, "code": rv, "model": (ms, mv if ms == "err" else "ok")})
    # property clauses on the real code
    for t in trees:
        rs, rv = real_load(cfgmod, t)
        txt = repr(t)
        must_reject = any(k in txt for k in ("'5 s'", "'5 km'}", "'5 m'", "'abc'", "'foo'", "'month': 13", "'Janu'"))
        if must_reject and rs == "ok":
            ctx.violation("NssConfig", "invalid-accepted", "an incompatible unit / bad tag / bad month is accepted", {"tree": t})


def check_band_other_fields(ctx, cfgmod):
    """the band rule does not depend on the other fields of the section (enable flag, antennas, gain, threshold) nor on the
    way the section is given (constructor, dict inside NssConfig, TOML file)"""
    import os
    import tempfile
    Radio = cfgmod.Detector.Radio
    bands = [(300.0, 30.0), (100.0, 100.0), ("1 GHz", "999 MHz"), (0.0, 0.0)]
    for lo, hi in bands:
        for other in ({"enable": False}, {"enable": True}, {"enable": False, "nantennas": 1}, {"enable": False, "gain": "0 dB", "snr_threshold": 0.0}):
            for way in ("constructor", "nssconfig-dict", "toml"):
                ctx.case(("band-other", repr(lo), repr(hi), tuple(sorted(other.items(), key=str)), way))
                ctx.count("band_with_other_fields")
                sec = {"low_frequency": lo, "high_frequency": hi, **other}
                try:
                    if way == "constructor":
                        Radio(**sec)
                    elif way == "nssconfig-dict":
                        cfgmod.NssConfig(**{"detector": {"radio": sec}})
                    else:
                        def tv(v):
                            return ("true" if v else "false") if isinstance(v, bool) else (f'"{v}"' if isinstance(v, str) else repr(v))
                        with tempfile.NamedTemporaryFile("w", suffix=".toml", delete=False) as f:
                            f.write("[detector.radio]\n" + "".join(f"{k} = {tv(v)}\n" for k, v in sec.items()))
                        try:
                            cfgmod.config_from_toml(f.name)
                        finally:
                            os.unlink(f.name)
                    ctx.violation("Detector.Radio", "band-not-increasing-accepted", f"an inverted or empty frequency band is accepted ({way}, other fields {other})",
                                  {"low": lo, "high": hi, "other_fields": {k: repr(v) for k, v in other.items()}, "given_as": way})
                except Exception:  # noqa
                    pass


def check_locale_independence(ctx, cfgmod):
    """TOML files are UTF-8 whatever the locale of the process: write and read a configuration with non-ASCII strings in child
    processes started under a plain C locale (no UTF-8 coercion) and under the current environment"""
    import os
    import subprocess
    import tempfile
    code = r'''
import sys, warnings
warnings.filterwarnings("ignore")
sys.path.insert(0, sys.argv[1])
import nuspacesim as nss
from nuspacesim import config as c
cfg = nss.NssConfig()
cfg.title = "Neutrinos \u03bd\u03c4 \u2014 \u00e9t\u00e9 \"q\" \\ b"
cfg.detector.name = "D\u00e9tecteur \u00d8 \u6771\u4eac"
p = sys.argv[2]
c.create_toml(p, cfg)
back = c.config_from_toml(p)
assert back.title == cfg.title and back.detector.name == cfg.detector.name, (back.title, back.detector.name)
raw = open(p, "rb").read().decode("utf-8")     # the file itself is UTF-8
assert "D\u00e9tecteur" in raw
open(p, "wb").write(raw.replace("D\u00e9tecteur", "D\u00e9t\u00eacteur").encode("utf-8"))
assert c.config_from_toml(p).detector.name.startswith("D\u00e9t\u00eacteur")
print("ok")
'''
    envs = {"current": dict(os.environ),
            "plain-C-locale": {**{k: v for k, v in os.environ.items() if not k.startswith("LC_") and k not in ("LANG", "LANGUAGE", "PYTHONUTF8", "PYTHONIOENCODING")},
                               "LC_ALL": "C", "LANG": "C", "PYTHONCOERCECLOCALE": "0", "PYTHONUTF8": "0"},
            "utf8-mode": {**os.environ, "PYTHONUTF8": "1"}}
    for name, env in envs.items():
        with tempfile.TemporaryDirectory() as d:
            r = subprocess.run([sys.executable, "-c", code, str(REPO / "src"), os.path.join(d, "c.toml")], env=env, capture_output=True, text=True, errors="replace")
        ctx.case(("locale", name), {"op": "toml round trip with non-ASCII strings", "environment": name, "result": (r.stdout.strip() or r.stderr.strip()[-160:])})
        ctx.count("locale_runs")
        if r.returncode != 0 or "ok" not in r.stdout:
            ctx.violation("create_toml/config_from_toml", "locale-dependent", f"a configuration with non-ASCII strings does not survive the TOML round trip in a process with environment '{name}': {r.stderr.strip()[-200:]}",
                          {"environment": name, "env_overrides": {k: env.get(k) for k in ("LC_ALL", "LANG", "PYTHONUTF8", "PYTHONCOERCECLOCALE")}})


def toml_roundtrip(cfgmod, cfg, path):
    try:
        cfgmod.create_toml(path, cfg)
    except Exception as e:  # noqa
        return "write-error", e
    try:
        return "ok", cfgmod.config_from_toml(path)
    except Exception as e:  # noqa
        return "read-error", e


def none_sections(cfg):
    out = []
    for obj, pre, names in ((cfg.detector, "detector", ("sun_moon", "optical", "radio")), (cfg.simulation, "simulation", ("ionosphere", "target"))):
        for n in names:
            if getattr(obj, n) is None:
                out.append(f"{pre}.{n}")
    return out


def check_roundtrip(ctx, nss, cfgmod, n):
    rng = ctx.rng
    tmp = tempfile.mkdtemp(prefix="c15-")
    path = os.path.join(tmp, "c.toml")
    cfgs = [cfgmod.NssConfig()] + [rand_config(rng, nss) for _ in range(n)]
    # hand-made string boundary cases
    for s in NASTY + ["".join(NASTY), "a" * 500, "\\" * 7, '"' * 5, "'" * 5, "x\r\ny", "tab\there", "\x1b[0m", "﻿bom", "end\\"]:
        c = cfgmod.NssConfig()
        c.title = s
        c.detector.name = s[::-1]
        cfgs.append(c)
    # small magnitudes in the written unit (a target arc seconds from the equator, a detector metres above sea level, sub-arc-minute
    # angles): the text form must carry the relative, not an absolute, precision
    for k_, tiny in enumerate((1e-4, 2e-5, 6e-8, 5.7e-3, 3.3e-11, 1e-19)):
        c = cfgmod.NssConfig()
        c.title = f"small magnitudes {k_}"
        c.detector.initial_position.latitude = float(np.radians(tiny * 1.2345678901234567))
        c.detector.initial_position.longitude = float(-np.radians(tiny))
        c.detector.initial_position.altitude = float(tiny * 3.3)
        c.simulation.target.source_DEC = float(np.radians(tiny / 7.0))
        c.simulation.target.source_RA = float(np.radians(tiny * 0.9))
        c.simulation.max_cherenkov_angle = float(np.radians(tiny * 11.0))
        c.simulation.angle_from_limb = float(np.radians(tiny * 13.0))
        c.detector.optical.telescope_effective_area = float(tiny * 0.77)
        c.detector.radio.gain = float(tiny * 1.9)
        cfgs.append(c)
    raws = [floatify(raw_of(c)) for c in cfgs]
    lines = []
    for r in raws:
        toks = " ".join(enc(r))
        lines += ["c15.dump " + toks, "c15.roundtrip " + toks]
    out = run_driver_sharded(lines)
    max_rel = 0.0
    for i, (cfg, r) in enumerate(zip(cfgs, raws)):
        variant = (r["simulation"]["spectrum"]["id"], r["simulation"]["cloud_model"]["id"], r["simulation"]["mode"])
        scls = "ascii" if (cfg.title + cfg.detector.name).isascii() else "non-ascii"
        if any(ord(ch) < 0x20 or ord(ch) == 0x7F for ch in cfg.title + cfg.detector.name):
            scls += "+control"
        if any(ch in cfg.title + cfg.detector.name for ch in "\"'\\"):
            scls += "+quote"
        ctx.count("variant_" + "/".join(variant))
        ctx.count("strings_" + scls)
        # --- model dump vs real model_dump()
        ms, md = model_res(out[2 * i])
        real_dump, _ = dec(enc(floatify(cfg.model_dump())))
        diff = tree_diff(md, real_dump, rtol_paths=ANGLE, rtol=ANGLE_TOL) if ms == "ok" else [("status", ms, md)]
        if diff:
            ctx.disagree("C15.dump", {"config": r, "diff": diff[:3]})
        # --- the real round trip
        st, back = toml_roundtrip(cfgmod, cfg, path)
        ctx.case(("roundtrip", i, variant, scls),
                 {"op": "create_toml -> config_from_toml", "variant": variant, "title": cfg.title[:30], "status": st} if i in (1, 2) else None)
        if st != "ok":
            ctx.violation("create_toml" if st == "write-error" else "config_from_toml", "exception:" + type(back).__name__,
                          f"{st}: {str(back)[:120]}", {"config": r})
            continue
        rb = floatify(raw_of(back))
        diff = tree_diff(r, rb, rtol_paths=ANGLE, rtol=ANGLE_TOL)
        for p in ANGLE:
            a, b = get_path(r, p), get_path(rb, p)
            if a and b and math.isfinite(a) and a != 0:
                max_rel = max(max_rel, abs(a - b) / abs(a))
        if diff:
            p0 = diff[0][0]
            cls = "angle-error>1e-15" if p0 in ANGLE else ("string-changed" if p0 and p0[-1] in ("title", "name") else "field-changed:" + ".".join(p0))
            ctx.violation("toml-roundtrip", cls, "configuration read back differs from the one written",
                          {"config": r, "diff": [(".".join(p), a, b) for p, a, b in diff[:3]]})
        # --- reading is repeatable: what a caller does to the configuration it loaded (the front ends apply command-line
        # overrides to it) must not show up when the same, unchanged file is read again
        if i % 10 == 0 and not diff:
            try:
                back.title = "changed by the caller"
                back.simulation.thrown_events = int(back.simulation.thrown_events) + 17
                back.detector.radio.enable = not back.detector.radio.enable
                back.simulation.spectrum = cfgmod.Simulation.MonoSpectrum(log_nu_energy=11.75)
                again = cfgmod.config_from_toml(path)
                ctx.count("reread_after_caller_mutation")
                d2 = tree_diff(r, floatify(raw_of(again)), rtol_paths=ANGLE, rtol=ANGLE_TOL)
                if d2 or again is back:
                    ctx.violation("config_from_toml", "second-read-of-unchanged-file-differs",
                                  "reading the same unchanged file a second time does not give the configuration that was written (the caller's changes to the first result leak in)",
                                  {"config": r, "diff": [(".".join(p), a, b) for p, a, b in d2[:3]], "same_object_returned": again is back})
            except Exception as e:  # noqa
                ctx.violation("config_from_toml", "exception:" + type(e).__name__, f"second read: {str(e)[:120]}", {"config": r})
        # --- model round trip vs real round trip
        ms, mr = model_res(out[2 * i + 1])
        diff = tree_diff(mr, rb, rtol_paths=ANGLE, rtol=2 * ANGLE_TOL) if ms == "ok" else [("status", ms, mr)]
        if diff:
            ctx.disagree("C15.roundtrip", {"config": r, "diff": diff[:3]})
        ctx.traces += 1
    ctx.extra["max_rel_err_angle"] = max_rel
    ctx.notes.append(f"largest relative change of a radian field through the real TOML round trip this run: {max_rel:.3e}")


def check_none_sections(ctx, nss, cfgmod, n):
    """F8: optional sections set to None (valid configurations; EASRadio supports ionosphere=None)."""
    import tomli_w
    rng = ctx.rng
    tmp = tempfile.mkdtemp(prefix="c15n-")
    path = os.path.join(tmp, "c.toml")
    singles = []
    for sec in ("simulation.ionosphere", "detector.sun_moon", "detector.optical", "detector.radio", "simulation.target"):
        c = cfgmod.NssConfig()
        o, k = sec.split(".")
        setattr(getattr(c, o), k, None)
        singles.append(c)
    cfgs = singles + [c for c in (rand_config(rng, nss, allow_none=True) for _ in range(n)) if none_sections(c)]
    raws = [floatify(raw_of(c)) for c in cfgs]
    out = run_driver(["c15.dump " + " ".join(enc(r)) for r in raws])
    wr = run_driver(["c15.writable " + " ".join(o[1:]) for o in out])
    excl_default = 0
    for cfg, r, o, w in zip(cfgs, raws, out, wr):
        nones = none_sections(cfg)
        ctx.case(("none", tuple(nones)), {"op": "create_toml", "none_sections": nones} if len(nones) == 1 and nones[0] == "simulation.ionosphere" else None)
        ctx.count("none_section_configs")
        st, back = toml_roundtrip(cfgmod, cfg, path)
        model_writable = w[0] == "1"
        if (st == "ok") != model_writable:
            ctx.disagree("C15.writable", {"none": nones, "code": st, "model": model_writable})
        if st == "write-error" and isinstance(back, TypeError) and "NoneType" in str(back):
            ctx.violation("create_toml", "optional-section-None",
                          "TypeError: NoneType is not TOML serializable", {"none_sections": nones, "config": r})
        elif st != "ok":
            ctx.violation("create_toml" if st == "write-error" else "config_from_toml", "exception:" + type(back).__name__,
                          f"{st}: {str(back)[:120]}", {"none_sections": nones, "config": r})
        elif tree_diff(r, floatify(raw_of(back)), rtol_paths=ANGLE, rtol=ANGLE_TOL):
            ctx.violation("toml-roundtrip", "optional-section-None", "None section not preserved", {"none_sections": nones})
        # what the obvious patch (exclude_none=True) would do: the section comes back as the DEFAULT, not None
        with open(path, "wb") as f:
            tomli_w.dump(cfg.model_dump(exclude_none=True), f)
        b2 = cfgmod.config_from_toml(path)
        if none_sections(b2) != nones:
            excl_default += 1
    ctx.notes.append(f"model_dump(exclude_none=True) variant: {excl_default}/{len(cfgs)} configurations with a None section read back "
                     "with the class default instead of None (so that patch would not round-trip either)")


def check_cli(ctx, cfgmod):
    from click.testing import CliRunner
    from nuspacesim.apps.create_config import create_config
    S = cfgmod.Simulation
    tmp = tempfile.mkdtemp(prefix="c15cli-")
    runs = [
        (["-n", "2e3", "--monospectrum", "9.5"], dict(thrown_events=2000, spectrum=S.MonoSpectrum(log_nu_energy=9.5))),
        (["--powerspectrum", "2.5", "7", "11", "--monocloud", "3.5"],
         dict(thrown_events=100, spectrum=S.PowerSpectrum(index=2.5, lower_bound=7.0, upper_bound=11.0), cloud_model=S.MonoCloud(altitude=3.5))),
        (["--pressuremapcloud", "Feb"], dict(thrown_events=100, cloud_model=S.PressureMapCloud(month=2))),
        (["--pressuremapcloud", "11", "--monospectrum", "7"], dict(thrown_events=100, spectrum=S.MonoSpectrum(log_nu_energy=7.0), cloud_model=S.PressureMapCloud(month=11))),
        (["--nocloud"], dict(thrown_events=100)),
    ]
    for i, (args, exp) in enumerate(runs):
        path = os.path.join(tmp, f"cli{i}.toml")
        res = CliRunner().invoke(create_config, args + [path])
        ctx.case(("cli", i), {"op": "nuspacesim create-config", "args": args, "exit": res.exit_code} if i == 1 else None)
        ctx.count("cli_runs")
        if res.exit_code != 0 or not os.path.exists(path):
            ctx.violation("create-config CLI", "cli-failed", f"exit {res.exit_code}: {res.exception!r}", {"args": args})
            continue
        want = cfgmod.NssConfig()
        for k, v in exp.items():
            setattr(want.simulation, k, v)
        got = cfgmod.config_from_toml(path)
        diff = tree_diff(floatify(raw_of(want)), floatify(raw_of(got)), rtol_paths=ANGLE, rtol=ANGLE_TOL)
        if diff:
            ctx.violation("create-config CLI", "cli-roundtrip", "file written by the CLI reads back differently",
                          {"args": args, "diff": [(".".join(p), a, b) for p, a, b in diff[:3]]})


# --------------------------------------------------------------------------- every route by which a configuration arrives
# Property text: "an incompatible unit or an inverted frequency band is rejected ... numbers outside 1-12 and unparseable names
# are rejected" and "writing it to TOML and reading it back yields the same configuration" (observe_at: create_toml /
# config_from_toml, the command line).  The rules are rules of the CONFIGURATION, not of one entry point: every case of the
# streams above (months, bands, units, union trees; valid and malformed) is therefore sent through every route by which a
# configuration can arrive -- section objects built by their constructors, NssConfig(**dict), model_validate(dict), a TOML
# file holding just these keys, a complete file as create_toml writes it with these keys edited, and `nuspacesim run <file>`
# (the configuration handed to compute) -- and the routes must agree: all reject, or all give the same configuration, which
# says what the file says (the selected union variant is the one named in the file).
_ROUTED = {"months": [], "bands": [], "trees": [], "units": []}


def _toml_ok(v):
    if isinstance(v, dict):
        return all(isinstance(k, str) and _toml_ok(x) for k, x in v.items())
    return isinstance(v, (str, bool, float)) or (isinstance(v, int) and abs(v) < 2**63)


def _section_classes(ann):
    import typing
    from pydantic import BaseModel
    if isinstance(ann, type) and issubclass(ann, BaseModel):
        return [ann]
    return [c for a in typing.get_args(ann) for c in _section_classes(a)]


def _build(cls, tree):
    """the Python-API route: every section that can be named is built by its own constructor, innermost first"""
    kw = {}
    for k, v in tree.items():
        cands = _section_classes(cls.model_fields[k].annotation) if k in cls.model_fields else []
        if isinstance(v, dict) and len(cands) > 1:
            cands = [c for c in cands if "id" in c.model_fields and v.get("id") == c.model_fields["id"].default]
        kw[k] = _build(cands[0], v) if isinstance(v, dict) and len(cands) == 1 and all(isinstance(x, str) for x in v) else v
    return cls(**kw)


def _merge_into_full(full, tree):
    out = dict(full)
    for k, v in tree.items():
        if isinstance(v, dict) and isinstance(out.get(k), dict) and "id" not in out[k]:
            out[k] = _merge_into_full(out[k], v)
        else:
            out[k] = v          # leaves, unknown keys and union sections (their keys depend on the variant) replace
    return out


def _ids(tree, path=()):
    for k, v in tree.items():
        if isinstance(v, dict):
            yield from _ids(v, path + (k,))
        elif k == "id":
            yield path + (k,), v


def routed_cases(ctx):
    from astropy.units import Quantity
    rng = ctx.rng
    cases = []
    for c in _ROUTED["months"]:
        if not isinstance(c, bool):
            cases.append(("month", {"simulation": {"cloud_model": {"id": "pressure_map", "month": c}}}, expected_month(c) is None))
    def mhz(v):
        return float(Quantity(v).to("MHz").value) if isinstance(v, str) else float(v)
    for lo, hi in _ROUTED["bands"]:
        cases.append(("band", {"detector": {"radio": {"low_frequency": lo, "high_frequency": hi}}}, not mhz(hi) > mhz(lo)))
    for t in _ROUTED["trees"]:
        cases.append(("tree", t, None))
    # units: the cases of check_units (every malformed one; a sample of the rest in the quick tier) on the representative
    # field of the dimension, and every malformed spelling + one unit of every other dimension on EVERY dimensional field
    units = _ROUTED["units"]
    bad = [m for m in units if m[1] != m[4]]
    good = [m for m in units if m[1] == m[4]]
    if not ctx.thorough:
        bad = [m for m in bad if m[1] == "unknown"] + [bad[i] for i in rng.choice(len(bad), size=min(60, len(bad)), replace=False)] if bad else []
        good = [good[i] for i in rng.choice(len(good), size=min(40, len(good)), replace=False)] if good else []
    def unit_case(path, canon, text):
        try:
            Quantity(text).to(canon)
            rej = False
        except Exception:  # noqa
            rej = True
        tree = {}
        d = tree
        for k in path[:-1]:
            d = d.setdefault(k, {})
        d[path[-1]] = text
        if path[-1] == "low_frequency":
            d["high_frequency"] = float("inf")
        if path[-1] == "high_frequency":
            d["low_frequency"] = float("-inf")
        return ("unit", tree, rej)
    for name, dim, fac, x, fdim in bad + good:
        cases.append(unit_case(FIELD_OF_DIM[fdim], CANON[fdim], f"{x!r} {name}"))
    one_of = {"length": "3 km", "angle": "3 deg", "area": "3 m2", "freq": "3 MHz", "power": "3 dB"}
    spell = ["kmm", "MHZ", "mile", "turn", "degrees of arc", "dB(mW)", "km km km/", "abc", "", "3 s", "3 kg"]
    for path, (dim, canon) in DIMENSIONAL.items():
        for text in [f"2.0 {b}".strip() if b not in ("abc", "", "3 s", "3 kg") else b for b in spell] + list(one_of.values()):
            cases.append(unit_case(path, canon, text))
    return cases


def check_routes(ctx, cfgmod):
    import tomli_w
    import unittest.mock
    from click.testing import CliRunner
    from nuspacesim.apps import run as runmod
    cases = routed_cases(ctx)
    for k in _ROUTED:
        _ROUTED[k].clear()
    tmp = tempfile.mkdtemp(prefix="c15r-")
    path = os.path.join(tmp, "c.toml")
    full = cfgmod.NssConfig().model_dump()
    seen_cfg = []

    def spy(config, *a, **k):
        seen_cfg.append(config)

    def attempt(f):
        try:
            return "ok", floatify(raw_of(f()))
        except Exception as e:  # noqa
            return "err", err_kind(e)

    def from_file(doc):
        with open(path, "wb") as f:
            tomli_w.dump(doc, f)
        return cfgmod.config_from_toml(path)

    def from_run(doc):
        with open(path, "wb") as f:
            tomli_w.dump(doc, f)
        seen_cfg.clear()
        with unittest.mock.patch.object(runmod, "compute", spy):
            res = CliRunner().invoke(runmod.run, [path, "--no-result-file"])
        if res.exit_code != 0 or not seen_cfg:
            raise res.exception if isinstance(res.exception, Exception) else RuntimeError(f"exit {res.exit_code}")
        return seen_cfg[0]

    SITE = {"dict": "NssConfig", "model_validate": "NssConfig.model_validate", "toml-keys-only": "config_from_toml",
            "toml-complete-file": "config_from_toml", "cli-run": "nuspacesim run"}
    done = set()
    for kind, tree, must_reject in cases:
        key = repr(tree)
        if key in done or not isinstance(tree, dict) or not all(isinstance(k, str) for k in tree):
            continue
        done.add(key)
        routes = {"constructors": attempt(lambda: _build(cfgmod.NssConfig, tree)),
                  "dict": attempt(lambda: cfgmod.NssConfig(**tree)),
                  "model_validate": attempt(lambda: cfgmod.NssConfig.model_validate(tree))}
        if _toml_ok(tree):
            routes["toml-keys-only"] = attempt(lambda: from_file(tree))
            if all(k in full for k in tree):
                routes["toml-complete-file"] = attempt(lambda: from_file(_merge_into_full(full, tree)))
            if kind != "unit" or must_reject or ctx.thorough:
                routes["cli-run"] = attempt(lambda: from_run(tree))
        ref = routes["constructors"]
        ctx.case(("route", kind, key), {"op": "one input through every route", "tree": tree, "routes": {r: (v[0] if v[0] == "ok" else v[1]) for r, v in routes.items()}}
                 if key in (repr({"simulation": {"cloud_model": {"id": "pressure_map", "month": 13}}}),) else None)
        ctx.count(f"routed_{kind}_" + ("rejected" if ref[0] == "err" else "accepted"))
        ctx.count("routes_tried", len(routes))
        for r, (st, val) in routes.items():
            case = {"tree": tree, "given_as": r, "result": st if st == "ok" else val, "by_constructors": ref[0] if ref[0] == "ok" else ref[1]}
            site = SITE.get(r, "section constructors")
            if st == "ok" and must_reject:
                ctx.violation(site, "invalid-accepted", f"a malformed {kind} value is accepted when the configuration is given as {r}", case)
            elif st == "ok" and ref[0] == "err":
                ctx.violation(site, "invalid-accepted", f"a value the section constructors reject ({ref[1]}) is accepted when the configuration is given as {r}", case)
            elif st == "err" and ref[0] == "ok":
                ctx.violation(site, "valid-rejected", f"a value the section constructors accept is rejected ({val}) when the configuration is given as {r}", case)
            elif st == "ok":
                d = tree_diff(ref[1], val, rtol_paths=ANGLE, rtol=ANGLE_TOL)
                if r == "cli-run":      # `run` converts the event count with int()
                    d = [x for x in d if x[0] != ("simulation", "thrown_events")]
                if d:
                    ctx.violation(site, "route-changes-configuration", f"the same values give a different configuration when given as {r}",
                                  {**case, "diff": [(".".join(p), a, b) for p, a, b in d[:3]]})
                for p, ident in _ids(tree):
                    if get_path(val, p) != ident:
                        ctx.violation(site, "section-replaced", f"the input names variant {ident!r} at {'.'.join(p[:-1])}, the configuration read ({r}) has {get_path(val, p)!r}",
                                      {**case, "path": ".".join(p)})


def check_cli_months(ctx, cfgmod):
    """the command-line route for months (`create-config --pressuremapcloud <text>`): whatever text is given, either the
    command fails or the file it writes reads back as a pressure-map model with the month the text names"""
    from click.testing import CliRunner
    from nuspacesim.apps.create_config import create_config
    tmp = tempfile.mkdtemp(prefix="c15cm-")
    path = os.path.join(tmp, "m.toml")
    cands = [str(i) for i in range(-3, 17)] + ["%02d" % i for i in range(0, 15)] + ["100", "003", " 3", "3 ", "", "Janu", "sept", "Sept.", "januar", "0x3", "3.0", "+3", "Mai", "Dez", "Smarch"]
    for i in range(1, 13):
        for nm in (calendar.month_name[i], calendar.month_abbr[i]):
            cands += [nm, nm.lower(), nm.upper(), nm[:-1], nm + "x", nm[:4], nm[:2]]
    for c in dict.fromkeys(cands):
        if os.path.exists(path):
            os.unlink(path)
        res = CliRunner().invoke(create_config, ["--pressuremapcloud", c, path])
        exp = expected_month(c)
        ctx.case(("cli-month", c), None)
        if res.exit_code != 0 or not os.path.exists(path):
            ctx.count("cli_month_rejected")
            if exp is not None:
                ctx.violation("create-config CLI", "valid-rejected", f"--pressuremapcloud {c!r} fails (exit {res.exit_code}) although it names month {exp}", {"args": ["--pressuremapcloud", c]})
            continue
        ctx.count("cli_month_accepted")
        try:
            cm = cfgmod.config_from_toml(path).simulation.cloud_model
            got = (cm.id, getattr(cm, "month", None))
        except Exception as e:  # noqa
            got = ("unreadable", err_kind(e))
        if exp is None or got != ("pressure_map", exp):
            ctx.violation("create-config CLI", "invalid-accepted" if exp is None else "cli-roundtrip",
                          f"--pressuremapcloud {c!r} exits 0 and the file it writes reads back as {got}, expected {'a failure' if exp is None else ('pressure_map', exp)}",
                          {"args": ["--pressuremapcloud", c], "read_back": got, "expected_month": exp})


def warm_process(ctx, nss):
    """The configuration rules hold in a process that has already run a simulation (a notebook or scan session runs, then
    builds the next configuration): run one small simulation with both channels first, so that anything the stages leave
    behind in process-global state (unit registries, caches, numpy error state) is in force while the rules are checked."""
    import dask
    from nuspacesim.compute import compute
    cfg = nss.NssConfig()
    cfg.simulation.thrown_events = 40
    cfg.detector.radio.enable = True
    cfg.detector.optical.enable = True
    np.random.seed(5)
    try:
        with quiet_stdout(), dask.config.set(scheduler="synchronous"), np.errstate(all="ignore"):
            t = compute(cfg)
        ctx.count("warm_process_rows", len(t))
    except Exception as e:  # noqa
        ctx.notes.append(f"the warm-up simulation raised {type(e).__name__}: {str(e)[:100]}")


TRUSTED_EXTRA = TRUSTED_EXTRA + ["the source tie's reader harness/cfgtrans.py: its recognised statement forms and the assumed pydantic / strptime behaviour listed in its docstring (cross-checked on this run against the live classes: coverage.source_tie.schema)"]


def regen():
    """source tie: Gen/Src/C15.lean regenerated from the class bodies / create_toml / config_from_toml of the working tree (harness/cfgtrans.py)"""
    import cfgtrans
    return cfgtrans.regen_c15()


def run(ctx: Ctx):
    nss, cfgmod = _imports()
    import cfgtrans
    cfgtrans.crosscheck_c15(ctx, cfgmod)
    cfgtrans.malformed_files(ctx, cfgmod)
    warm_process(ctx, nss)
    check_defaults(ctx, cfgmod)
    check_units(ctx, cfgmod)
    check_every_unit_field(ctx, cfgmod)
    check_band(ctx, cfgmod)
    check_band_other_fields(ctx, cfgmod)
    check_locale_independence(ctx, cfgmod)
    check_months(ctx, cfgmod)
    check_unions(ctx, cfgmod)
    check_routes(ctx, cfgmod)
    check_cli_months(ctx, cfgmod)
    check_roundtrip(ctx, nss, cfgmod, 12000 if ctx.thorough else 250)
    check_none_sections(ctx, nss, cfgmod, 400 if ctx.thorough else 20)
    check_cli(ctx, cfgmod)


def search(ctx: Ctx):
    if ctx.tier != "thorough":
        ctx.tier = "thorough"
        run(ctx)


if __name__ == "__main__":
    sys.exit(main_for("C15", sys.modules[__name__]))
