"""C05 — tau exit probability is a faithful, bounded interpolation of the tables."""
import sys
import warnings

import numpy as np

warnings.filterwarnings("ignore")
from common import *  # noqa
from tabutil import *  # noqa

RULE = ("cases = (version, call history, beta, log_e_nu) through the real Taus.tau_exit_prob on fresh objects and after random call "
        "histories (including empty batches and batches that raise), compared with the Lean state-machine model at Float and with an "
        "independent evaluation from the raw HDF5 table; streams: structured, boundary (all table nodes in thorough, cell edges, "
        "angles at/below/above the axis ends, non-positive entries of version 1), malformed (energies outside [6,12]); non-trivial = "
        "distinct (version, beta, log_e_nu) with an interpolated (not clamped) result")
ASSUMPTIONS = ["scipy RegularGridInterpolator (linear) is modelled by Model.Interp.bilinear; the correspondence is what checks that"]
FLOOR = float(np.finfo(np.float32).eps)


def regen():
    """the tables (Gen/Tab*.lean) and the source tie: Gen/Src/C05.lean is `Taus.tau_exit_prob` as the working tree has it now"""
    import srctie
    return {**regen_tables(), **srctie.regen("C05")}


def raw_pexit(version):
    import h5py
    p = REPO / "src" / "nuspacesim" / "data" / "nupyprop_tables" / f"nu2tau_pexit.{version}.h5"
    with h5py.File(p, "r") as f:
        data = f["/"]["__nss_grid_data__"][()]
        names = [f["/"].attrs[f"AXIS{i}"] for i in range(data.ndim)]
        axes = [f["/"]["__nss_grid_axes__"][n][()] for n in names]
    return np.array(data, dtype=np.float64), axes, names


def run(ctx: Ctx):
    rng = ctx.rng
    n = 20000 if ctx.thorough else 2000
    taus = {v: make_taus(v) for v in VERSIONS}
    check_translator(ctx, taus)
    # what the calling program logs is inert (shared stream harness/logmode.py)
    import logmode
    bl_ = rng.uniform(0.0, np.pi / 2, 600); bl_[:3] = [0.0, np.radians(0.05), np.radians(42.0)]
    ll_ = rng.uniform(6.0, 12.0, 600)
    for v_ in VERSIONS:
        logmode.check(ctx, f"Taus.tau_exit_prob [v{v_}]", lambda v_=v_: (np.asarray(make_taus(v_).tau_exit_prob(bl_.copy(), ll_.copy())),),
                      {"version": v_, "events": 600})
    for v in VERSIONS:
        raw, (gE, gB), names = raw_pexit(v)
        flo = np.where(raw <= 0, FLOOR, raw)
        ctx.count(f"nonpositive_entries_v{v}", int((raw <= 0).sum()))
        bmin, bmax = gB[0], gB[-1]
        # ---------------- queries
        b = rng.uniform(0.0, np.pi / 2, n)
        le = rng.uniform(gE[0], gE[-1], n)
        # boundary: nodes, cell edges, axis ends
        k = n // 2
        ii = rng.integers(0, len(gE), k); jj = rng.integers(0, len(gB), k)
        le[:k] = gE[ii]; b[:k] = gB[jj]
        le[:k:3] = rng.uniform(gE[0], gE[-1], len(le[:k:3]))       # on a beta node, between energy nodes
        b[1:k:3] = rng.uniform(bmin, bmax, len(b[1:k:3]))          # on an energy node, between beta nodes
        b[-8:] = [0.0, bmin, np.nextafter(bmin, 0), np.nextafter(bmin, 1), bmax, np.nextafter(bmax, 0), np.nextafter(bmax, 4), np.pi / 2]
        le[-8:] = [gE[0], gE[-1], gE[0], gE[-1], gE[3], gE[0], gE[-1], 8.1]
        if ctx.thorough:  # every node of the table
            I, J = np.meshgrid(np.arange(len(gE)), np.arange(len(gB)), indexing="ij")
            le = np.concatenate([le, gE[I.ravel()]]); b = np.concatenate([b, gB[J.ravel()]])
        N = len(b)
        fresh = make_taus(v)
        b0, le0 = b.copy(), le.copy()
        P = fresh.tau_exit_prob(b, le)
        if not (np.array_equal(b, b0) and np.array_equal(le, le0)):
            ctx.violation("Taus.tau_exit_prob", "mutates-input", "input array modified", {"version": v})
        import tautie
        tautie.compare_exit_prob(ctx, fresh, raw, np.roll(b, 8), np.roll(le, 8), np.roll(P, 8))   # the 8 axis-end cases first
        # ---- objects prepared first, used later: the object for this version was built at the start of the run, before the objects
        # for the other versions (all three alive at once); it must give what the fresh object gives
        _others = [make_taus(w) for w in VERSIONS if w != v]      # … and objects for the other versions are built again just before
        P_old = np.asarray(taus[v].tau_exit_prob(b.copy(), le.copy()), dtype=np.float64)
        ctx.count("prepared_first_used_later")
        if P_old.shape != np.shape(P) or not np.array_equal(P_old, np.asarray(P, dtype=np.float64), equal_nan=True):
            k_ = int(np.nonzero(~(P_old == np.asarray(P)))[0][0]) if P_old.shape == np.shape(P) else 0
            ctx.violation("Taus.tau_exit_prob", "depends-on-other-objects-alive",
                          f"a Taus object for table version {v} built before objects for the other versions gives another exit probability than a fresh object for version {v}",
                          {"version": v, "built_after_it": [w for w in VERSIONS if w != v], "beta": float(b[k_]), "log_e_nu": float(le[k_]),
                           "pexit_older_object": float(np.ravel(P_old)[k_]), "pexit_fresh_object": float(np.ravel(P)[k_])})
        # ---- "for all event batches": an event's exit probability does not depend on which classes of angle the rest of the batch
        # holds - sub-batches of only below-table angles, below + above, one below-table event, the exact-zero angle alone, only
        # above-table angles, against the values the same events got in the mixed batch (held against the raw table below)
        low_i = np.nonzero(b < bmin)[0][:6]
        high_i = np.nonzero(b > bmax)[0][:4]
        zero_i = np.nonzero(b == 0.0)[0][:1]
        for nm_, idx_ in (("below-table angles only", low_i), ("below-table and above-table angles", np.concatenate([low_i, high_i])),
                          ("one below-table event", low_i[-1:]), ("the exact-zero angle alone", zero_i), ("above-table angles only", high_i),
                          ("one in-table event", np.nonzero((b >= bmin) & (b <= bmax))[0][:1])):
            if len(idx_) == 0:
                continue
            ctx.count("sub_batches_by_angle_class")
            try:
                Ps_ = np.asarray(make_taus(v).tau_exit_prob(b[idx_].copy(), le[idx_].copy()), dtype=np.float64)
                bad_ = None if Ps_.shape == (len(idx_),) and np.allclose(Ps_, P[idx_], rtol=1e-12, atol=0) else "differs"
            except Exception as e:  # noqa: BLE001
                Ps_, bad_ = None, f"raises {type(e).__name__}: {str(e)[:80]}"
            if bad_:
                ctx.violation("Taus.tau_exit_prob", "value-depends-on-the-rest-of-the-batch",
                              f"a batch of {nm_} {bad_ if bad_ != 'differs' else 'gives an event another exit probability than the same event gets in a batch that also holds in-table angles'}",
                              {"version": v, "sub_batch": nm_, "betas": [float(x) for x in b[idx_]], "log_e_nu": [float(x) for x in le[idx_]],
                               "pexit_in_sub_batch": (None if Ps_ is None else [float(x) for x in np.ravel(Ps_)]), "pexit_in_mixed_batch": [float(x) for x in P[idx_]]})
                break
        out = run_driver_sharded([f"pexit {v} 0 {f2h(b[i])} {f2h(le[i])}" for i in range(N)])
        for i, o in enumerate(out):
            case = {"version": v, "beta": float(b[i]), "log_e_nu": float(le[i]), "pexit": float(P[i])}
            cls = "high" if b[i] > bmax else "low" if b[i] < bmin else "valid"
            ctx.count(f"angle_{cls}")
            ctx.case((v, float(b[i]), float(le[i])) if cls == "valid" else None, case if i in (0, N - 1) else None)
            if o[0] != "ok" or not close(h2f(o[1]), P[i], 1e-9):
                ctx.disagree("C05.pexit", {**case, "model": " ".join(o)})
            # ---- property oracle from the raw table
            if not np.isfinite(P[i]) or not (0.0 < P[i] <= 1.0 + 1e-12):
                ctx.violation("Taus.tau_exit_prob", "not-in-(0,1]", "exit probability outside (0,1]", case)
                continue
            if cls == "high":
                if not close(P[i], FLOOR, 1e-12):
                    ctx.violation("Taus.tau_exit_prob", "above-max-angle", "angle above the table does not give the 1.19e-7 floor", case)
                continue
            bq = min(max(b[i], bmin), bmax)
            ie = min(max(np.searchsorted(gE, le[i]) - 1, 0), len(gE) - 2)
            jb = min(max(np.searchsorted(gB, bq) - 1, 0), len(gB) - 2)
            corners = flo[ie:ie + 2, jb:jb + 2]
            if not (corners.min() * (1 - 1e-9) <= P[i] <= corners.max() * (1 + 1e-9)):
                ctx.violation("Taus.tau_exit_prob", "outside-corners", "value not between the four surrounding nodes", {**case, "corners": corners.tolist()})
                continue
            t = (le[i] - gE[ie]) / (gE[ie + 1] - gE[ie]); s = (bq - gB[jb]) / (gB[jb + 1] - gB[jb])
            lg = np.log10(corners)
            ref = 10 ** ((1 - t) * (1 - s) * lg[0, 0] + (1 - t) * s * lg[0, 1] + t * (1 - s) * lg[1, 0] + t * s * lg[1, 1])
            if not close(ref, P[i], 1e-9):
                ctx.violation("Taus.tau_exit_prob", "not-log-bilinear", "value is not 10^(bilinear interpolation of log10 table)", {**case, "expected": float(ref)})
        # batches in which every event has the same energy (mono-energetic runs), on and off the energy grid: the value of an
        # event is the log-bilinear table value and does not depend on the rest of the batch
        for e_one in (float(gE[3]), 8.1, 6.37, float(rng.uniform(gE[0], gE[-1])), 11.99):
            nb_ = 64
            bb = rng.uniform(0.0, 0.8, nb_); bb[:3] = [bmin, bmax, 0.0]
            lone = np.full(nb_, e_one)
            P1 = make_taus(v).tau_exit_prob(bb.copy(), lone.copy())
            lmix = lone.copy(); lmix[-1] = float(gE[5]) + 0.013; bmixed = bb.copy()
            P2 = make_taus(v).tau_exit_prob(bmixed, lmix)
            om = run_driver([f"pexit {v} 0 {f2h(bb[i])} {f2h(e_one)}" for i in range(nb_)])
            for i in range(nb_):
                ctx.case(("mono-batch", v, e_one, i))
                case = {"version": v, "beta": float(bb[i]), "log_e_nu": e_one, "pexit_in_single_energy_batch": float(P1[i]), "pexit_in_mixed_batch": float(P2[i])}
                if om[i][0] != "ok" or not close(h2f(om[i][1]), P1[i], 1e-9):
                    ctx.disagree("C05.pexit.mono-batch", {**case, "model": " ".join(om[i])})
                if i < nb_ - 1 and P1[i] != P2[i]:
                    ctx.violation("Taus.tau_exit_prob", "depends-on-rest-of-batch", "the value of an event depends on the other events of the batch", case)
                    break
                if bb[i] <= bmax:
                    bq = max(bb[i], bmin)
                    ie = min(max(np.searchsorted(gE, e_one) - 1, 0), len(gE) - 2); jb = min(max(np.searchsorted(gB, bq) - 1, 0), len(gB) - 2)
                    t = (e_one - gE[ie]) / (gE[ie + 1] - gE[ie]); s_ = (bq - gB[jb]) / (gB[jb + 1] - gB[jb])
                    lg = np.log10(flo[ie:ie + 2, jb:jb + 2])
                    ref = 10 ** ((1 - t) * (1 - s_) * lg[0, 0] + (1 - t) * s_ * lg[0, 1] + t * (1 - s_) * lg[1, 0] + t * s_ * lg[1, 1])
                    if not close(ref, P1[i], 1e-9):
                        ctx.violation("Taus.tau_exit_prob", "not-log-bilinear", "value is not 10^(bilinear interpolation of log10 table) in a single-energy batch", {**case, "expected": float(ref)})
                        break
            ctx.count("mono_energy_batches")
        # node exactness against the raw file
        I = rng.integers(0, len(gE), 300); J = rng.integers(0, len(gB), 300)
        Pn = fresh.tau_exit_prob(gB[J].copy(), gE[I].copy())
        bad = np.nonzero(~np.isclose(Pn, flo[I, J], rtol=1e-10, atol=0))[0]
        ctx.case(n=300)
        for q in bad[:3]:
            ctx.violation("Taus.tau_exit_prob", "node-not-reproduced", "table node not reproduced",
                          {"version": v, "i": int(I[q]), "j": int(J[q]), "table": float(flo[I[q], J[q]]), "got": float(Pn[q])})
        # ---------------- histories on one object: result must be bit-identical to a fresh object's, and match the model
        H = 60 if ctx.thorough else 15
        for hcase in range(H):
            obj = make_taus(v)
            hist = []
            for _ in range(int(rng.integers(0, 6))):
                kind = rng.integers(0, 5)
                if kind == 0:      # empty batch
                    obj.tau_exit_prob(np.array([]), np.array([])); ctx.count("hist_empty")
                elif kind == 1:    # a batch that raises (energy out of range)
                    try:
                        obj.tau_exit_prob(np.array([0.1]), np.array([13.0]))
                    except ValueError:
                        pass
                    ctx.count("hist_raise")
                else:
                    m = int(rng.integers(1, 5))
                    hb = rng.uniform(0.0, np.pi / 2, m); hl = rng.uniform(gE[0], gE[-1], m)
                    obj.tau_exit_prob(hb, hl); hist += list(zip(hb, hl)); ctx.count("hist_call")
            qb = rng.uniform(0.0, 0.8, 4); ql = rng.uniform(gE[0], gE[-1], 4)
            if hcase < 4:
                # directed: an earlier call of the SAME shape whose in-table / above-table pattern is the opposite of the query's
                above = np.array([hcase % 2 == 0, hcase % 2 == 1, True, False])
                qb = np.where(above, rng.uniform(np.radians(42.5), np.pi / 2, 4), rng.uniform(0.01, np.radians(41.5), 4))
                hb = np.where(~above, rng.uniform(np.radians(42.5), np.pi / 2, 4), rng.uniform(0.01, np.radians(41.5), 4))
                hl = rng.uniform(gE[0], gE[-1], 4)
                obj.tau_exit_prob(hb, hl); hist += list(zip(hb, hl)); ctx.count("hist_call_same_shape_opposite_pattern")
                if hcase >= 2:   # and once more with the query's own pattern at other energies
                    obj.tau_exit_prob(qb.copy(), rng.uniform(gE[0], gE[-1], 4)); ctx.count("hist_call")
            if v == "1" and (raw <= 0).any():   # aim at the floored entries
                zi, zj = np.nonzero(raw <= 0); pick = rng.integers(0, len(zi))
                qb[0], ql[0] = gB[zj[pick]], gE[zi[pick]]
            Ph = obj.tau_exit_prob(qb.copy(), ql.copy())
            Pf = make_taus(v).tau_exit_prob(qb.copy(), ql.copy())
            ctx.case(("hist", v, hcase), {"op": "history", "version": v, "history_len": len(hist), "query": [float(qb[0]), float(ql[0])], "after_history": float(Ph[0]), "fresh": float(Pf[0])} if hcase == 0 else None)
            if not np.array_equal(Ph, Pf):
                ctx.violation("Taus.tau_exit_prob", "history-dependent", "value depends on earlier calls on the same object",
                              {"version": v, "history": [[float(x), float(y)] for x, y in hist], "query": [qb.tolist(), ql.tolist()], "after_history": Ph.tolist(), "fresh": Pf.tolist()})
            hs_ = " ".join(f"{f2h(x)} {f2h(y)}" for x, y in hist)
            o = run_driver([f"pexit {v} {len(hist)} {hs_} {f2h(qb[0])} {f2h(ql[0])}"])[0]
            if o[0] != "ok" or not close(h2f(o[1]), Ph[0], 1e-9):
                ctx.disagree("C05.pexit.history", {"version": v, "model": " ".join(o), "code": float(Ph[0])})
            ctx.traces += 1
        # ---------------- the stage as a whole: the tauExitProb the stage returns (and stores) is tau_exit_prob of the same events,
        # over the whole documented angle range [0, 90 deg] (incl. above-table angles at the lowest energies) — in (0, 1]
        nb_ = 400
        bs_ = rng.uniform(0.0, np.pi / 2, nb_); ls_ = rng.uniform(gE[0], gE[-1], nb_)
        bs_[:8] = [0.0, float(gB[0]), float(gB[-1]), float(np.nextafter(gB[-1], 4.0)), np.pi / 2, 0.9, 1.2, 1.5]
        ls_[:8] = [6.0, 6.0, 12.0, 6.0, 6.0, 6.5, 7.0, 7.25]
        stored_ = {}
        try:
            with np.errstate(all="ignore"):
                out_ = make_taus(v)(bs_.copy(), ls_.copy(), store=lambda names, cols, stored_=stored_: stored_.update({k_: np.array(c_, copy=True) for k_, c_ in zip(names, cols)}))
            pe_stage = np.asarray(out_[4], dtype=np.float64)
            pe_direct = make_taus(v).tau_exit_prob(bs_.copy(), ls_.copy())
            ctx.case(("stage", v), None, n=nb_); ctx.count("stage_events", nb_)
            bad = np.nonzero(~((pe_stage == pe_direct) & (pe_stage > 0) & (pe_stage <= 1)))[0]
            if len(bad) or ("tauExitProb" in stored_ and not np.array_equal(stored_["tauExitProb"], pe_stage)):
                k_ = int(bad[0]) if len(bad) else 0
                ctx.violation("Taus.__call__", "stage-exit-probability-differs-from-tau_exit_prob",
                              "the exit probability returned by the tau stage is not tau_exit_prob of the same event (or not in (0,1])",
                              {"version": v, "beta_rad": float(bs_[k_]), "beta_deg": float(np.degrees(bs_[k_])), "log_e_nu": float(ls_[k_]),
                               "stage": float(pe_stage[k_]), "tau_exit_prob": float(pe_direct[k_]), "events_differing": int(len(bad))})
        except Exception as ex:  # noqa
            ctx.violation("Taus.__call__", "stage-raises", f"{type(ex).__name__}: {str(ex)[:120]}", {"version": v})
        # ---------------- the same events as a 2-d scan grid in several memory layouts (C order, transposed view, Fortran order)
        b2_ = rng.uniform(0.0, 1.2, (6, 9)); l2_ = rng.uniform(gE[0], gE[-1], (6, 9))
        ref2_ = make_taus(v).tau_exit_prob(b2_.ravel().copy(), l2_.ravel().copy()).reshape(6, 9)
        for nm_, tf in (("C-ordered 2-d", lambda a: a.copy()), ("transposed view", lambda a: np.ascontiguousarray(a.T).T), ("Fortran order", np.asfortranarray)):
            ctx.case(("layout", v, nm_), None); ctx.count("memory_layouts")
            try:
                P2 = np.asarray(make_taus(v).tau_exit_prob(tf(b2_), tf(l2_)))
                ok_ = P2.shape == (6, 9) and np.array_equal(P2, ref2_)
                err = None
            except Exception as ex:  # noqa
                ok_, err = False, f"{type(ex).__name__}: {str(ex)[:100]}"
            if not ok_:
                ctx.violation("Taus.tau_exit_prob", "depends-on-the-memory-layout",
                              f"a (6, 9) grid of events given as {nm_} arrays does not give the values of the same events given as 1-d arrays" + (f" ({err})" if err else ""),
                              {"version": v, "layout": nm_, "beta[0,1]": float(b2_[0, 1]), "log_e_nu[0,1]": float(l2_[0, 1]), "expected[0,1]": float(ref2_[0, 1]),
                               "got[0,1]": (float(P2[0, 1]) if err is None and P2.shape == (6, 9) else None)})
                break
        # ---------------- the documented range [6, 12] itself (nominal numbers, not the file's own axis values): defined, in (0,1]
        nominal = np.arange(6.0, 12.0 + 1e-9, 0.25)
        bn = np.array([0.0, float(gB[0]), 0.3, float(gB[-1]), 1.2])
        for le_n in nominal:
            ctx.case(("nominal", v, float(le_n))); ctx.count("nominal_range_energy")
            try:
                Pn_ = make_taus(v).tau_exit_prob(bn.copy(), np.full(len(bn), le_n))
                if not np.all((Pn_ > 0) & (Pn_ <= 1)):
                    ctx.violation("Taus.tau_exit_prob", "not-in-(0,1]", "exit probability outside (0,1] inside the documented energy range",
                                  {"version": v, "log_e_nu": float(le_n), "beta": bn.tolist(), "returned": Pn_.tolist()})
            except Exception as ex:  # noqa
                ctx.violation("Taus.tau_exit_prob", "energy-in-range-rejected", f"an energy inside the documented range [6, 12] is rejected: {type(ex).__name__}: {str(ex)[:120]}",
                              {"version": v, "log_e_nu": float(le_n), "table_axis_ends": [repr(float(gE[0])), repr(float(gE[-1]))]})
        # ---------------- malformed: energies outside the table
        for bad_le in (gE[0] - 1e-9, gE[-1] + 1e-9, 5.0, 13.0):
            ctx.case(("malformed", v, bad_le)); ctx.count("malformed_energy")
            om = run_driver([f"pexit {v} 0 {f2h(0.1)} {f2h(bad_le)}"])[0]
            try:
                r = make_taus(v).tau_exit_prob(np.array([0.1, 0.1]), np.array([8.0, bad_le]))
                ctx.violation("Taus.tau_exit_prob", "energy-out-of-range-accepted", "energy outside the table is not rejected",
                              {"version": v, "log_e_nu": bad_le, "returned": r.tolist()})
            except ValueError:
                if om[:2] != ["err", "oob"]:
                    ctx.disagree("C05.pexit.errors", {"version": v, "log_e_nu": bad_le, "model": " ".join(om)})


def search(ctx: Ctx):
    if ctx.tier != "thorough":
        ctx.tier = "thorough"
        run(ctx)


if __name__ == "__main__":
    sys.exit(main_for("C05", sys.modules[__name__]))
