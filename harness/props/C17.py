"""C17 — staged output is prefix-consistent at stage boundaries and after stage failure.

Real code: nuspacesim.compute(config, output_file=…, write_stages=True) with astropy's Table.write wrapped from outside
(the file is copied after every completed write), raising stubs / os._exit injected into every stage in turn.
Model: Model/StagedWriter.lean (state machine + the stage sequence of compute) through the native driver.
"""
import contextlib
import hashlib
import json
import os
import shutil
import subprocess
import sys
import tempfile
import warnings

import numpy as np

warnings.filterwarnings("ignore")
from common import *  # noqa

RULE = ("fault enumeration on the real compute(): configurations {Diffuse, Target} x {optical+radio, optical only, radio only} x "
        "{mono, power spectrum}; for each, one complete run with write_stages=True in which every completed Table.write is "
        "followed by a copy of the file (one snapshot per stage boundary: 15 in a default diffuse run, 17 in target mode); every "
        "snapshot is read back with Table.read and compared with the in-memory table at that moment and with the corresponding "
        "prefix of the final file (columns bit for bit, header keys and values); then a raising stub is injected into each stage "
        "in turn (geometry, init lat/long, spectra, taus, altDec, EAS, optical mcintegral, EASRadio, calculate_snr, radio "
        "mcintegral) and the file left on disk is compared byte for byte with the last snapshot of that run and with the "
        "expected prefix of the complete run; process death = a child process calling os._exit(1) inside the stage; "
        "write_stages=False: no write call, no file. A case is non-trivial when its (configuration, boundary or fault site) "
        "key is distinct.")
ASSUMPTIONS = [
    "not exhibited: a crash INSIDE Table.write (astropy truncates and rewrites the file in place, not atomically); the property "
    "speaks of stage boundaries, and process death is injected between two writer calls only",
    "the file system is a parameter with the contract 'after a completed write the file holds what was written; a stage that "
    "raises or a process that dies between two writes leaves the file untouched' (observed here on the sandbox file system)",
    "simTime is identical within one run and is compared within a run; comparisons ACROSS runs (faulted run vs complete run with "
    "the same numpy seed) exclude this one key",
    "header values are compared file against file (both sides went through FITS); the in-memory table is compared with the "
    "file value by value except floats whose repr is longer than 20 characters (C16 finding F11)",
    "compute() is run with the synchronous dask scheduler (schedule independence is C10's subject)",
    "a stage boundary is a StagedWriter call: spectra stores log_e_nu before the normalisation constants are computed, "
    "mcintegral results are stored by four consecutive add_meta calls (each a boundary)",
]
TRUSTED_EXTRA = ["astropy.table / astropy.io.fits (FITS I/O) and the operating system's file semantics: parameters with stated contracts"]


class InjectedFault(Exception):
    pass


# --------------------------------------------------------------------------- instrumentation from outside


@contextlib.contextmanager
def snapshot_writes(path, snapdir, keep_tables=True):
    """wrap astropy.table.Table.write: after each completed write to `path`, copy the file and remember the table"""
    from astropy.table import Table
    orig = Table.__dict__["write"]
    log = []

    class W:
        def __get__(self, obj, objtype=None):
            if obj is None:
                return orig.__get__(obj, objtype)
            real = orig.__get__(obj, objtype)

            def call(*args, **kwargs):
                out = real(*args, **kwargs)
                if args and args[0] == path:
                    k = len(log) + 1
                    dst = os.path.join(snapdir, f"snap{k:02d}.fits")
                    shutil.copyfile(path, dst)
                    log.append((dst, obj.copy() if keep_tables else None))
                return out
            return call

    Table.write = W()
    try:
        yield log
    finally:
        Table.write = orig


def stage_sites(target: bool, optical: bool, radio: bool):
    """(name, module path, class or None, attribute, which call (1-based), boundaries completed before the stage)"""
    geo = "RegionGeomToO" if target else "RegionGeom"
    sites = [
        ("geometry", "nuspacesim.simulation.geometry.region_geometry", geo, "throw", 1, 0),
        ("init_lat_long", "nuspacesim.simulation.geometry.region_geometry", geo, "find_lat_long_along_traj", 1, 1),
        ("spectra", "nuspacesim.simulation.spectra.spectra", None, "energy_spectra", 1, 2),
        ("taus", "nuspacesim.simulation.taus.taus", "Taus", "__call__", 1, 3),
        ("altDec", "nuspacesim.simulation.eas_optical.eas", "EAS", "altDec", 1, 4),
    ]
    k = 5
    if optical:
        sites.append(("EAS", "nuspacesim.simulation.eas_optical.eas", "EAS", "__call__", 1, k))
        k += 1
        sites.append(("mcintegral_optical", "nuspacesim.simulation.geometry.region_geometry", geo, "mcintegral", 1, k))
        k += (1 if target else 0) + 4
    if radio:
        sites.append(("EASRadio", "nuspacesim.simulation.eas_radio.radio", "EASRadio", "__call__", 1, k))
        k += 1
        sites.append(("calculate_snr", "nuspacesim.compute", None, "calculate_snr", 1, k))
        sites.append(("mcintegral_radio", "nuspacesim.simulation.geometry.region_geometry", geo, "mcintegral", 2 if optical else 1, k))
        k += (1 if target else 0) + 4
    return sites, k


@contextlib.contextmanager
def inject(site, action):
    """replace the stage's function by a stub that performs `action` at the n-th call (delegates before that)"""
    import importlib
    name, modname, cls, attr, nth, _ = site
    mod = importlib.import_module(modname)
    holder = getattr(mod, cls) if cls else mod
    orig = holder.__dict__[attr] if cls else getattr(holder, attr)
    count = {"n": 0}

    def stub(*args, **kwargs):
        count["n"] += 1
        if count["n"] == nth:
            action()
        return orig(*args, **kwargs)

    setattr(holder, attr, stub)
    try:
        yield
    finally:
        setattr(holder, attr, orig)


def make_config(spec: dict):
    import nuspacesim as nss
    from nuspacesim.config import NssConfig, Simulation
    cfg = NssConfig()
    cfg.simulation.mode = spec["mode"]
    cfg.simulation.thrown_events = spec["n"]
    cfg.detector.optical.enable = spec["optical"]
    cfg.detector.radio.enable = spec["radio"]
    if spec["spectrum"] == "power":
        cfg.simulation.spectrum = Simulation.PowerSpectrum(index=2.0, lower_bound=7.0, upper_bound=10.0)
    else:
        cfg.simulation.spectrum = Simulation.MonoSpectrum(log_nu_energy=spec.get("loge", 9.0))
    if spec.get("cloud"):
        cfg.simulation.cloud_model = Simulation.MonoCloud(altitude=spec["cloud"])
    return cfg


def run_compute(spec, path, write_stages=True):
    import dask
    from nuspacesim.compute import compute
    np.random.seed(spec["seed"])
    with dask.config.set(scheduler="synchronous"):
        return compute(make_config(spec), output_file=path, write_stages=write_stages)


# --------------------------------------------------------------------------- comparisons


def native(a):
    a = np.asarray(a)
    return a.astype(a.dtype.newbyteorder("="), copy=False)


def col_bits(tab, n):
    from astropy.time import Time
    c = tab[n]
    if isinstance(c, Time):
        return native(np.stack([c.jd1, c.jd2], axis=-1)).tobytes()
    return native(c).tobytes()


def digest(b: bytes) -> str:
    return hashlib.sha256(b).hexdigest()[:12]


def file_state(path, drop=()):
    """(ordered column (name, digest) list, ordered header (key, repr(value)) list) of a FITS table file"""
    from astropy.table import Table
    t = Table.read(path, format="fits")
    cols = [(n, digest(col_bits(t, n))) for n in t.colnames]
    meta = [(k, repr(v)) for k, v in t.meta.items() if k not in drop]
    return cols, meta


def table_state(tab):
    """the same for an in-memory table (keys as astropy returns them after reading)"""
    cols = [(n, digest(col_bits(tab, n))) for n in tab.colnames]
    meta = []
    for k, v in tab.meta.items():
        v = v[0] if isinstance(v, tuple) else v
        rk = k[len("HIERARCH "):] if k.startswith("HIERARCH ") else k.upper()
        if isinstance(v, (np.floating, float)):
            v = float(v)
        elif isinstance(v, (np.integer,)):
            v = int(v)
        elif isinstance(v, np.bool_):
            v = bool(v)
        meta.append((rk, repr(v), isinstance(v, float) and len(repr(v)) > 20))
    return cols, meta


TIME_KEYS = ("TIMESYS", "JDREF", "TREFPOS")  # added by astropy for a Time column


def is_prefix(a, b):
    return len(a) <= len(b) and list(b[:len(a)]) == list(a)


def model_trace(writing, init_meta_keys, boundaries):
    """boundaries: list of ('C', [(name, dig)…]) | ('M', key, dig)"""
    toks = ["c17.run", "1" if writing else "0", "-", ",".join(f"{k.replace(' ', '_')}=i" for k in init_meta_keys) or "-"]
    for b in boundaries:
        if b[0] == "C":
            toks.append("C" + ",".join(f"{n}={d}" for n, d in b[1]))
        elif b[0] == "M":
            toks.append(f"M{b[1]}={b[2]}")
        else:
            toks.append("F")
    return run_driver([" ".join(toks)])[0]


def spec_key(spec):
    return (spec["mode"], spec["optical"], spec["radio"], spec["spectrum"])


# --------------------------------------------------------------------------- the check


def complete_run(ctx, spec, workdir):
    """one complete run; returns (snapshot states, final file state, boundaries) or None"""
    path = os.path.join(workdir, spec.get("outname", "out.fits"))
    snapdir = os.path.join(workdir, "snaps")
    os.makedirs(snapdir, exist_ok=True)
    target = spec["mode"] == "Target"
    sites, expect_k = stage_sites(target, spec["optical"], spec["radio"])
    key = spec_key(spec)
    seen = {"tab": None}
    from astropy.table import Table
    orig_add = Table.add_columns

    def add_columns(self, *a, **kw):
        seen["tab"] = self
        return orig_add(self, *a, **kw)

    def checkpoint(stage):
        """a stage is about to start, so every earlier stage has completed: the file must hold exactly the table"""
        tab = seen["tab"]
        case = {"config": key, "seed": spec["seed"], "checkpoint": "before " + stage}
        ctx.case(("checkpoint", key, stage))
        ctx.count("checkpoints")
        if tab is None or len(tab.colnames) == 0:
            if os.path.exists(path):
                ctx.violation("StagedWriter", "file-exists-before-first-boundary", "a file exists although no stage completed", case)
            return
        if not os.path.exists(path):
            ctx.violation("StagedWriter", "file-missing-at-stage-boundary", "no file on disk although stages completed", case)
            return
        compare_file_table(ctx, file_state(path), table_state(tab), case)

    Table.add_columns = add_columns
    try:
        with contextlib.ExitStack() as st:
            log = st.enter_context(snapshot_writes(path, snapdir))
            for site in sites:
                if site[4] == 1:
                    st.enter_context(inject(site, lambda nm=site[0]: checkpoint(nm)))
            try:
                sim = run_compute(spec, path)
            except Exception as ex:  # noqa
                left = os.path.basename(path) if os.path.exists(path) else None
                ctx.violation("compute", "raises-although-no-stage-failed",
                              f"compute(write_stages=True, output_file={os.path.basename(path)!r}) raises {type(ex).__name__}: {str(ex)[:120]} although no stage failed",
                              {"config": key, "seed": spec["seed"], "output_file_name": os.path.basename(path), "file_left": left})
                return None
            seen["tab"] = sim
            checkpoint("return")
    finally:
        Table.add_columns = orig_add
    if len(sim) == 0:
        ctx.notes.append(f"{key}: no valid events for seed {spec['seed']}; run skipped")
        ctx.count("empty_runs")
        return None
    ctx.count(f"complete_{spec['mode']}_o{int(spec['optical'])}r{int(spec['radio'])}_{spec['spectrum']}")
    # number and shape of the boundaries = the model's stage sequence
    mseq = run_driver([f"c17.stages {int(target)} {int(spec['optical'])} {int(spec['radio'])}"])[0]
    states = [file_state(p) for p, _ in log]
    observed = []
    prev_cols, prev_meta = [], None
    for cols, meta in states:
        newc = [n for n, _ in cols[len(prev_cols):]]
        if prev_meta is None:
            newm = []
        else:
            newm = [k for k, _ in meta if k not in {q for q, _ in prev_meta} and k not in TIME_KEYS]
        observed.append("C" + ",".join(newc) if newc else "M" + ",".join(newm))
        prev_cols, prev_meta = cols, meta
    ctx.case(("sequence", key), {"op": "compute(write_stages=True)", "config": key, "boundaries": len(log), "model": len(mseq), "rows": len(sim)})
    if observed != mseq:
        ctx.disagree("C17.stage-sequence", {"config": key, "code": observed, "model": mseq})
    source_tie(ctx, key, target, spec["optical"], spec["radio"], observed)
    if len(log) != expect_k:
        ctx.disagree("C17.boundary-count", {"config": key, "code": len(log), "expected": expect_k})
        if not ctx.violations:
            ctx.violation("StagedWriter", "number-of-writes", "the number of completed writes differs from the number of stage boundaries",
                          {"config": key, "writes": len(log), "boundaries": expect_k, "observed": observed})
    if not log:
        return None
    final_file = file_state(path)
    final_tab = table_state(sim)
    with open(path, "rb") as f:
        final_bytes = f.read()
    with open(log[-1][0], "rb") as f:
        if f.read() != final_bytes:
            ctx.violation("StagedWriter", "final-file-not-last-write", "file on disk after compute() differs from the last write", {"config": key})
    # every boundary k: file = table after op k = prefix of the final table
    for k, ((snap_path, tab_k), (cols, meta)) in enumerate(zip(log, states), 1):
        case = {"config": key, "seed": spec["seed"], "boundary": k, "columns": [n for n, _ in cols]}
        ctx.case(("boundary", key, k), {"op": "snapshot", **case} if k in (1, len(log)) and key[0] == "Diffuse" and key[1] and key[2] and key[3] == "mono" else None)
        # (a) the file holds exactly the table as it was when written
        compare_file_table(ctx, (cols, meta), table_state(tab_k), case)
        # (b) it is the corresponding part of the final file
        fcols, fmeta = final_file
        if not is_prefix(cols, fcols):
            ctx.violation("StagedWriter", "columns-not-prefix-of-final", "columns at the boundary are not a prefix of the final table", case)
        mm = [m for m in meta if m[0] not in TIME_KEYS]
        ff = [m for m in fmeta if m[0] not in TIME_KEYS]
        if not is_prefix(mm, ff):
            ctx.violation("StagedWriter", "header-not-prefix-of-final", "header at the boundary is not a prefix of the final header", case)
    # (c) the final in-memory table against the final file
    if final_file[0] != final_tab[0]:
        ctx.violation("StagedWriter", "final-columns", "final file columns differ from the returned table", {"config": key})
    # model trace on the observed operations
    init_keys = [k for k, _ in states[0][1]]
    ops = []
    pc, pm = [], set(init_keys)
    for cols, meta in states:
        if len(cols) > len(pc):
            ops.append(("C", cols[len(pc):]))
        else:
            new = [(k_, v) for k_, v in meta if k_ not in pm and k_ not in TIME_KEYS]
            if not new:
                ctx.disagree("C17.write-without-new-content", {"config": key, "boundary": len(ops) + 1})
                return None
            ops.append(("M", new[0][0], digest(new[0][1].encode())))
        pc = cols
        pm |= {k_ for k_, _ in meta}
    tr = model_trace(True, init_keys, ops)
    for k, (cols, meta) in enumerate(states, 1):
        want_cols = ",".join(f"{n}={d}" for n, d in cols)
        got = tr[k].split(";")[0]
        if got.split("|")[0] != want_cols:
            ctx.disagree("C17.model-trace", {"config": key, "boundary": k, "model": got[:200], "code": want_cols[:200]})
    if tr[0] != "nofile;0":
        ctx.disagree("C17.model-trace", {"config": key, "boundary": 0, "model": tr[0]})
    ctx.traces += 1
    return {"states": states, "final": final_file, "sites": sites, "snaps": [p for p, _ in log], "ops": ops, "init_keys": init_keys}


def compare_file_table(ctx, fstate, tstate, case):
    cols, meta = fstate
    tcols, tmeta = tstate
    if cols != tcols:
        ctx.violation("StagedWriter", "file-columns-differ-from-table", "columns in the file differ from the in-memory table at the boundary",
                      {**case, "file": [n for n, _ in cols], "table": [n for n, _ in tcols]})
    fm = dict(meta)
    for rk, rv, long_ in tmeta:
        if rk not in fm:
            ctx.violation("StagedWriter", "file-header-key-missing", "header key of the in-memory table is not in the file", {**case, "header_key": rk})
        elif fm[rk] != rv and not long_:
            ctx.violation("StagedWriter", "file-header-value-differs", "header value in the file differs from the in-memory table",
                          {**case, "header_key": rk, "file": fm[rk], "table": rv})
    extra = [k_ for k_, _ in meta if k_ not in {rk for rk, _, _ in tmeta} and k_ not in TIME_KEYS]
    if extra:
        ctx.violation("StagedWriter", "file-header-extra-key", "the file has header keys the table does not have", {**case, "keys": extra})


def strip_simtime(state):
    cols, meta = state
    return cols, [m for m in meta if m[0] != "SIMTIME" and m[0] not in TIME_KEYS]


def fault_run(ctx, spec, base, site, workdir):
    """raise inside one stage; the exception must propagate and the file must be the last snapshot"""
    name, _, _, _, _, k_before = site
    key = spec_key(spec)
    d = os.path.join(workdir, "fault_" + name)
    os.makedirs(d, exist_ok=True)
    path = os.path.join(d, spec.get("outname", "out.fits"))

    def boom():
        raise InjectedFault(name)

    raised = None
    with snapshot_writes(path, d, keep_tables=False) as log:
        try:
            with inject(site, boom):
                run_compute(spec, path)
        except InjectedFault as e:
            raised = e
        except Exception as e:  # noqa
            raised = e
    case = {"config": key, "seed": spec["seed"], "stage": name, "writes_before_failure": len(log)}
    ctx.case(("fault", key, name), {"op": "raise in stage", **case} if name in ("geometry", "EASRadio") and key == ("Diffuse", True, True, "mono") else None)
    ctx.count("fault_" + name)
    if not isinstance(raised, InjectedFault):
        ctx.violation("compute", "fault-not-propagated", f"an exception raised inside stage {name} did not come out of compute() ({raised!r})", case)
        return
    judge_leftover(ctx, base, case, path, [p for p, _ in log], k_before, "after-raise")
    # the model: ops up to the failure, then fail, then the remaining ops (which must not be executed)
    tr = model_trace(True, base["init_keys"], base["ops"][:k_before] + [("F",)] + base["ops"][k_before:])
    last = tr[-2].split(";")
    if k_before > len(base["states"]):
        return
    want = "nofile" if k_before == 0 else ",".join(f"{n}={dg}" for n, dg in base["states"][k_before - 1][0])
    if last[0].split("|")[0] != want or last[1] != "1":
        ctx.disagree("C17.model-fault", {"config": key, "stage": name, "model": tr[-2][:200], "code": want[:200]})


def judge_leftover(ctx, base, case, path, snaps, k_before, how):
    if len(snaps) != k_before:
        ctx.disagree("C17.fault-position", {**case, "writes": len(snaps), "expected": k_before})
    if not snaps:
        if os.path.exists(path):
            ctx.violation("StagedWriter", f"file-exists-before-first-boundary:{how}", "a file exists although no stage completed", case)
        return
    if not os.path.exists(path):
        ctx.violation("StagedWriter", f"file-missing:{how}", "no file on disk although stages completed", case)
        return
    with open(path, "rb") as f, open(snaps[-1], "rb") as g:
        same = f.read() == g.read()
    if not same:
        ctx.violation("StagedWriter", f"leftover-differs-from-last-snapshot:{how}", "file left on disk differs from the file after the last completed stage", case)
    try:
        left = strip_simtime(file_state(path))
    except Exception as e:  # noqa
        ctx.violation("StagedWriter", f"leftover-unreadable:{how}", f"file left on disk is not a readable FITS table: {e!r}"[:200], case)
        return
    k = len(snaps)
    if k <= len(base["states"]) and left != strip_simtime(base["states"][k - 1]):
        ctx.violation("StagedWriter", f"leftover-not-the-prefix:{how}", "file left on disk is not the k-th prefix of the complete run", {**case, "k": k})


def storage_fault_run(ctx, spec, base, k, workdir):
    """The file system refuses the k-th staged write (an OSError raised before the file is touched - quota, full disk - and only
    this once).  "After each stage completes the output file … contains exactly the columns and header values of all stages
    completed so far": so either the run stops there (the error comes out of compute() and the file left is the last prefix that
    was written), or - if the run goes on - by the time the NEXT boundary is written, and at return, the file must have caught up
    with the table of the completed stages.  A run that carries on past a boundary whose file was never written is a violation."""
    import errno
    from astropy.table import Table
    key = spec_key(spec)
    d = os.path.join(workdir, f"storage_fault_{k}")
    os.makedirs(d, exist_ok=True)
    path = os.path.join(d, spec.get("outname", "out.fits"))
    orig = Table.__dict__["write"]
    st = {"attempt": 0, "good": [], "behind": None}

    def disk():
        try:
            with open(path, "rb") as f:
                return f.read()
        except FileNotFoundError:
            return None

    class W:
        def __get__(self, obj, objtype=None):
            if obj is None:
                return orig.__get__(obj, objtype)
            real = orig.__get__(obj, objtype)

            def call(*args, **kwargs):
                if not (args and args[0] == path):
                    return real(*args, **kwargs)
                st["attempt"] += 1
                if st["attempt"] == k:
                    raise OSError(errno.ENOSPC, "No space left on device (injected by the check)", path)
                if st["attempt"] == k + 1 and st["behind"] is None:
                    # the boundary whose write was refused is in the past: is the file still the older prefix?
                    st["behind"] = disk() == (st["good"][-1] if st["good"] else None)
                out = real(*args, **kwargs)
                st["good"].append(disk())
                return out
            return call

    Table.write = W()
    raised = None
    try:
        try:
            run_compute(spec, path)
        except BaseException as e:  # noqa: BLE001
            raised = e
    finally:
        Table.write = orig
    case = {"config": key, "seed": spec["seed"], "refused_write": k, "write_attempts": st["attempt"], "raised": repr(raised)[:160]}
    ctx.case(("storage-fault", key, k), None)
    ctx.count("storage_fault_runs")
    if st["attempt"] < k:
        ctx.count("storage_fault_not_reached")
        return
    if raised is not None:
        ctx.count("storage_fault_surfaced")
        want = st["good"][-1] if st["good"] else None
        if disk() != want:
            ctx.violation("StagedWriter", "leftover-differs-from-last-snapshot:after-refused-write",
                          "a staged write was refused and compute() raised, but the file left on disk is not the file of the last completed write", case)
        return
    if st["behind"]:
        ctx.violation("StagedWriter", "stage-boundary-passed-without-its-file",
                      f"the staged write at boundary {k} was refused by the file system (OSError), nothing came out of compute(), and when the "
                      f"next boundary was reached the file on disk was still the prefix of boundary {k - 1}: the run went on past a completed "
                      "stage whose columns are not in the file", case)
    elif st["attempt"] == k:
        # the refused write was the last one and the run returned normally: the file lacks the last boundary
        ctx.violation("StagedWriter", "stage-boundary-passed-without-its-file",
                      f"the last staged write (boundary {k}) was refused by the file system (OSError) and compute() returned normally: the file "
                      "on disk is not the final table", case)


CHILD = r"""
import json, os, sys, warnings
warnings.filterwarnings("ignore")
import importlib.util
spec_ = importlib.util.spec_from_file_location("c17", sys.argv[1])
m = importlib.util.module_from_spec(spec_); spec_.loader.exec_module(m)
arg = json.loads(sys.argv[2])
site = tuple(arg["site"])
with m.snapshot_writes(arg["path"], arg["dir"], keep_tables=False) as log:
    with m.inject(site, lambda: os._exit(7)):
        m.run_compute(arg["spec"], arg["path"])
os._exit(0)
"""


def death_run(ctx, spec, base, site, workdir):
    name, _, _, _, _, k_before = site
    key = spec_key(spec)
    d = os.path.join(workdir, "death_" + name)
    os.makedirs(d, exist_ok=True)
    path = os.path.join(d, spec.get("outname", "out.fits"))
    arg = {"site": list(site), "path": path, "dir": d, "spec": spec}
    p = subprocess.run([sys.executable, "-c", CHILD, os.path.abspath(__file__), json.dumps(arg)], capture_output=True, text=True,
                       env={**os.environ, "C17_CHILD": "1",
                            "PYTHONPATH": os.path.dirname(os.path.dirname(os.path.abspath(__file__))) + os.pathsep + os.environ.get("PYTHONPATH", "")})
    case = {"config": key, "seed": spec["seed"], "stage": name, "child_exit": p.returncode}
    ctx.case(("death", key, name), {"op": "os._exit in stage (child process)", **case} if name == "taus" else None)
    ctx.count("death_" + name)
    if p.returncode != 7:
        raise InfraError(f"child did not die in stage {name}: rc={p.returncode} {p.stderr[-300:]}")
    snaps = sorted(os.path.join(d, f) for f in os.listdir(d) if f.startswith("snap"))
    judge_leftover(ctx, base, case, path, snaps, k_before, "after-process-death")


def writes_off(ctx, spec, workdir):
    from astropy.table import Table
    key = spec_key(spec)
    d = os.path.join(workdir, "off")
    os.makedirs(d, exist_ok=True)
    path = os.path.join(d, spec.get("outname", "out.fits"))
    calls = []
    orig = Table.__dict__["write"]

    class W:
        def __get__(self, obj, objtype=None):
            real = orig.__get__(obj, objtype)

            def call(*a, **kw):
                calls.append(a[:1])
                return real(*a, **kw)
            return call

    Table.write = W()
    # the simulation runs in a fresh, empty working directory of its own: anything that appears there was written by it
    cwd_dir = os.path.join(workdir, "off-cwd")
    shutil.rmtree(cwd_dir, ignore_errors=True)
    os.makedirs(cwd_dir)
    old_cwd = os.getcwd()
    try:
        os.chdir(cwd_dir)
        cwd_before = set(os.listdir("."))
        failed = None
        try:
            run_compute(spec, path, write_stages=False)
            run_compute(spec, None, write_stages=False)
        except Exception as e:  # noqa
            failed = e
        cwd_after = set(os.listdir("."))
    finally:
        os.chdir(old_cwd)
        Table.write = orig
    ctx.case(("writes-off", key), {"op": "compute(write_stages=False)", "config": key, "write_calls": len(calls), "files": os.listdir(d)})
    ctx.count("writes_off")
    if failed is not None:
        ctx.violation("compute", "failure-with-write_stages-off", f"compute(write_stages=False) raised {failed!r}"[:200],
                      {"config": key, "write_calls": len(calls)})
    if calls or os.listdir(d) or cwd_after != cwd_before:
        ctx.violation("compute", "writes-with-write_stages-off", "compute() wrote although write_stages is False",
                      {"config": key, "write_calls": len(calls), "files": os.listdir(d), "new_in_cwd": sorted(cwd_after - cwd_before)})
    o = run_driver(["c17.run 0 - SIMTIME=i Ca=1,b=2 Mk=3 F Cc=4"])[0]
    if any(not s.startswith("nofile") for s in o[:-1]):
        ctx.disagree("C17.model-writes-off", {"model": o})


def cli_fault_runs(ctx, workdir):
    """the command line with intermediate writing: when a stage raises, the file left at the output path is the last prefix (as with
    the library call) — not removed, not replaced"""
    import dask
    import nuspacesim.config as cfgmod
    from astropy.table import Table
    from click.testing import CliRunner
    from nuspacesim.apps.cli import cli
    d = os.path.join(workdir, "cli")
    os.makedirs(d, exist_ok=True)
    spec = {"mode": "Diffuse", "optical": True, "radio": True, "spectrum": "mono", "n": 80, "seed": 11, "loge": 9.0}
    toml = os.path.join(d, "c.toml")
    cfgmod.create_toml(toml, make_config(spec))
    sites, _ = stage_sites(False, True, True)
    for site in [s_ for s_ in sites if s_[0] in ("taus", "calculate_snr")]:
        for extra in ([], ["-n"]) if site[0] == "calculate_snr" else ([],):
            out = os.path.join(d, f"cli_{site[0]}{len(extra)}.fits")
            if os.path.exists(out):
                os.remove(out)

            def boom(nm=site[0]):
                raise InjectedFault(nm)
            np.random.seed(spec["seed"])
            with inject(site, boom), dask.config.set(scheduler="synchronous"):
                r = CliRunner().invoke(cli, ["run", toml, "-o", out, "-w", *extra])
            case = {"command": "nuspacesim run c.toml -o out.fits -w " + " ".join(extra), "failing_stage": site[0], "boundaries_completed_before": site[5]}
            ctx.case(("cli-fault", site[0], tuple(extra)), None)
            ctx.count("cli_fault_runs")
            if not isinstance(r.exception, InjectedFault):
                ctx.violation("nuspacesim run", "fault-not-propagated", f"a failure injected in stage {site[0]} did not come out of the command ({r.exception!r})", case)
                continue
            if not os.path.exists(out):
                ctx.violation("nuspacesim run", "leftover-missing:after-raise", f"after a failure in stage {site[0]} (with {site[5]} stage boundaries completed) nothing is left at the output path", case)
                continue
            try:
                t = Table.read(out, format="fits")
                if len(t.colnames) == 0:
                    ctx.violation("nuspacesim run", "leftover-not-the-prefix:after-raise", "the file left after the failure has no columns", case)
            except Exception as ex:  # noqa
                ctx.violation("nuspacesim run", "leftover-unreadable:after-raise", f"the file left after the failure is not a readable FITS table: {type(ex).__name__}", case)


def worker_thread_run(ctx, workdir):
    """a simulation with intermediate writing started from a worker thread (a scan driven by a thread pool, a GUI or service
    worker): the same boundaries, the same final file"""
    import threading
    from astropy.table import Table
    d = os.path.join(workdir, "thread")
    os.makedirs(d, exist_ok=True)
    spec = {"mode": "Diffuse", "optical": True, "radio": False, "spectrum": "mono", "n": 60, "seed": 5, "loge": 9.0}
    path = os.path.join(d, "out.fits")
    box = {}

    def work():
        try:
            box["sim"] = run_compute(spec, path)
        except BaseException as ex:  # noqa
            box["exc"] = ex
    th = threading.Thread(target=work)
    th.start()
    th.join()
    ctx.case(("worker-thread",)); ctx.count("worker_thread_runs")
    case = {"config": spec_key(spec), "seed": spec["seed"], "started_from": "a worker thread (threading.Thread)"}
    if "exc" in box:
        ctx.violation("compute", "raises-although-no-stage-failed", f"compute(write_stages=True) started from a worker thread raises {type(box['exc']).__name__}: {str(box['exc'])[:100]} although no stage failed", case)
        return
    try:
        t = Table.read(path, format="fits")
        if list(t.colnames) != list(box["sim"].colnames) or len(t) != len(box["sim"]):
            ctx.violation("StagedWriter", "final-file-differs-from-table", "the file left by a run started from a worker thread does not hold the columns of the returned table", case)
    except Exception as ex:  # noqa
        ctx.violation("StagedWriter", "file-missing-at-stage-boundary", f"no readable file after a run started from a worker thread: {type(ex).__name__}", case)


def model_selftests(ctx):
    """the model on hand-made operation lists (duplicate column name, meta overwrite)"""
    o = run_driver(["c17.run 1 - SIMTIME=i Ca=1,b=2 Mk=3 Ca=9 Cc=4"])[0]
    ctx.case(("model", "duplicate-column"))
    if not (o[3].endswith(";1") and o[4] == o[3] and o[2].startswith("a=1,b=2|SIMTIME=i,k=3")):
        ctx.disagree("C17.model-duplicate", {"model": o})
    # real astropy: duplicate column name raises and leaves the table unchanged
    from astropy.table import Table
    t = Table({"a": [1.0], "b": [2.0]})
    try:
        t.add_columns([[9.0]], names=["a"])
        dup = "accepted"
    except ValueError:
        dup = "ValueError"
    if dup != "ValueError" or t.colnames != ["a", "b"]:
        ctx.disagree("C17.astropy-duplicate", {"code": dup, "colnames": t.colnames})


def run(ctx: Ctx):
    import nuspacesim  # noqa: F401
    rng = ctx.rng
    work = tempfile.mkdtemp(prefix="c17-")
    # every simulation of this check runs with a scratch working directory (a simulation that drops files next to itself must
    # not litter /verif; the writes-off probe uses an empty directory of its own)
    os.makedirs(os.path.join(work, "cwd"))
    os.chdir(os.path.join(work, "cwd"))
    model_selftests(ctx)
    specs = [
        {"mode": "Diffuse", "optical": True, "radio": True, "spectrum": "mono"},
        # (the staged file is a FITS table whatever the output file is called)
        {"mode": "Diffuse", "optical": True, "radio": False, "spectrum": "power", "outname": "run_0007.ecsv"},
        {"mode": "Diffuse", "optical": False, "radio": True, "spectrum": "mono", "cloud": 3.0, "outname": "E18.5.dat"},
        {"mode": "Target", "optical": True, "radio": True, "spectrum": "mono"},
    ]
    if ctx.thorough:
        specs += [
            {"mode": "Target", "optical": True, "radio": False, "spectrum": "power"},
            {"mode": "Target", "optical": False, "radio": True, "spectrum": "mono"},
            {"mode": "Diffuse", "optical": True, "radio": True, "spectrum": "power", "cloud": 5.0},
            {"mode": "Diffuse", "optical": False, "radio": False, "spectrum": "mono"},
        ]
    for i, spec in enumerate(specs):
        spec["n"] = int(rng.integers(100, 160)) if spec["mode"] == "Diffuse" else int(rng.integers(300, 400))
        spec["seed"] = int(rng.integers(2**31))
        spec["loge"] = float(round(rng.uniform(8.0, 10.0), 1))
        wd = os.path.join(work, f"cfg{i}")
        os.makedirs(wd)
        base = complete_run(ctx, spec, wd)
        if base is None:
            continue
        sites = base["sites"]
        full = ctx.thorough or i in (0, 3)
        chosen = sites if full else [sites[j] for j in sorted(set(rng.choice(len(sites), size=min(3, len(sites)), replace=False).tolist()))]
        for site in chosen:
            fault_run(ctx, spec, base, site, wd)
        death_sites = sites if ctx.thorough else ([sites[0], sites[3], sites[-1]] if i == 0 else ([sites[5 % len(sites)]] if i == 3 else []))
        for site in death_sites:
            death_run(ctx, spec, base, site, wd)
        if i in (0, 3) or ctx.thorough:
            writes_off(ctx, spec, wd)
            nb_ = len(base["states"])
            for k_ in (sorted({2, nb_ // 2, nb_}) if ctx.thorough else sorted({int(rng.integers(2, nb_)), nb_})):
                storage_fault_run(ctx, spec, base, int(k_), wd)
    zero_survivor_runs(ctx, work)
    cli_fault_runs(ctx, work)
    worker_thread_run(ctx, work)
    name_and_history_streams(ctx, work)
    os.chdir(str(VERIF))
    shutil.rmtree(work, ignore_errors=True)


def zero_survivor_runs(ctx, work):
    """A run in which no trajectory survives stops after the geometry stage: with staged writing on, the file must be the
    readable (empty) table of exactly that stage and of THIS run — on a fresh path and on a path that holds an earlier run."""
    from astropy.table import Table
    rng = ctx.rng
    for mode in ("Diffuse", "Target"):
        wd = os.path.join(work, f"zero-{mode}")
        os.makedirs(wd)
        spec0 = {"mode": mode, "optical": True, "radio": True, "spectrum": "mono", "n": 0, "seed": int(rng.integers(2**31)), "loge": 9.0}
        earlier = {**spec0, "n": 120 if mode == "Diffuse" else 300}
        for label, prep in (("fresh-path", False), ("path-holds-an-earlier-run", True)):
            path = os.path.join(wd, f"{label}.fits")
            if prep:
                run_compute(earlier, path, True)
            case = {"mode": mode, "thrown_events": 0, "path": label}
            ctx.case(("zero-survivors", mode, label), case)
            try:
                tab = run_compute(spec0, path, True)
            except Exception as e:  # noqa
                ctx.violation("compute", "zero-survivors-raises", f"{type(e).__name__}: {str(e)[:120]}", case)
                continue
            want_cols = list(tab.colnames)
            if not os.path.exists(path):
                ctx.violation("StagedWriter", "zero-survivors-no-file", "staged writing is on but no file was written for the geometry stage of a run without survivors",
                              {**case, "table_columns": want_cols})
                continue
            try:
                f = Table.read(path, format="fits")
            except Exception as e:  # noqa
                ctx.violation("StagedWriter", "zero-survivors-unreadable", f"file is not a readable FITS table: {type(e).__name__}", case)
                continue
            if list(f.colnames) != want_cols or len(f) != len(tab):
                ctx.violation("StagedWriter", "zero-survivors-file-is-not-this-run", "the file left on disk is not the table of the stages completed by this run",
                              {**case, "file_columns": list(f.colnames), "file_rows": int(len(f)), "table_columns": want_cols, "table_rows": int(len(tab))})
            elif str(f.meta.get("SIMTIME", f.meta.get("simTime"))) != str(tab.meta["simTime"][0] if isinstance(tab.meta["simTime"], tuple) else tab.meta["simTime"]):
                ctx.violation("StagedWriter", "zero-survivors-file-is-not-this-run", "the header on disk is not this run's header", case)


# --------------------------------------------------------------------------- spellings of the output name; histories of runs on one path
#
# The property is stated for "the output file" and for every run ("after each stage completes the output file is …", "if a later
# stage raises or the process dies, the file left on disk is the last such prefix"). Neither clause depends on HOW the caller
# names the file, nor on what earlier runs did with the same name. Two general streams follow from that:
#   (1) one and the same file named in every way a caller can legitimately name it (str / pathlib / any os.PathLike / a str
#       subclass; absolute, relative to the working directory, a bare name in the working directory, './name', an un-normalised
#       path, a path through a symlinked directory; directory and file names with blanks and non-ASCII characters; with and
#       without the .fits extension): the file on disk before every stage and at the end must be the one of the reference run;
#   (2) histories of runs on ONE path (fault → clean, clean → clean, fault → fault at another stage, process death → clean, and
#       random longer ones; all steps in this process, or every step in a fresh process; steps may spell the path differently):
#       after EACH step the clauses must hold for THAT step — a step without an injected failure does not raise and leaves the
#       final table of that step; a step with a failure injected in stage s lets exactly that failure out and leaves the prefix of
#       that step; and "the file left on disk" is all that a run leaves: the output directory (and the working directory) is listed
#       before and after each step and must contain nothing but the output file.
# Narrowing, with reason: failures are injected only in stages with at least one completed boundary — before the first boundary
# the code has not touched the path and the property does not say what an older file at that path must become; bytes names are
# not tried (the annotation is str, astropy's FITS writer does not accept bytes for an existing file).


class _FsPath:
    """an os.PathLike that is neither str nor pathlib (os.DirEntry, py.path.local, a caller's own path class look like this)"""

    def __init__(self, p):
        self._p = p

    def __fspath__(self):
        return self._p

    def __repr__(self):
        return f"<os.PathLike object with __fspath__() == {self._p!r}>"


SPELLINGS = [
    "str, absolute", "pathlib.Path, absolute", "os.PathLike object, absolute", "str subclass (numpy.str_), absolute",
    "str, relative to the working directory", "pathlib.Path, relative to the working directory",
    "str, bare name in the working directory", "pathlib.Path, bare name in the working directory", "str, './name' in the working directory",
    "str, un-normalised ('dir/../dir//./name')", "pathlib.PurePosixPath, through a symlinked directory", "str, through a symlinked directory",
]
DIR_NAMES = ["plain", "with blank", "énergie_µ", "run 2024 – ν τ"]
FILE_NAMES = ["out.fits", "out", "run_0007.ecsv", "résultat final.fits", "E18.5.dat", "a b.FITS"]


def _spell(kind, abs_path, cwd):
    """(the object handed to compute() as output_file, the working directory of the run) for one way of naming abs_path"""
    import pathlib
    d, name = os.path.split(abs_path)
    if kind == "str, absolute":
        return abs_path, cwd
    if kind == "pathlib.Path, absolute":
        return pathlib.Path(abs_path), cwd
    if kind == "os.PathLike object, absolute":
        return _FsPath(abs_path), cwd
    if kind == "str subclass (numpy.str_), absolute":
        return np.str_(abs_path), cwd
    if kind == "str, relative to the working directory":
        return os.path.relpath(abs_path, cwd), cwd
    if kind == "pathlib.Path, relative to the working directory":
        return pathlib.Path(os.path.relpath(abs_path, cwd)), cwd
    if kind == "str, bare name in the working directory":
        return name, d
    if kind == "pathlib.Path, bare name in the working directory":
        return pathlib.Path(name), d
    if kind == "str, './name' in the working directory":
        return "./" + name, d
    if kind == "str, un-normalised ('dir/../dir//./name')":
        return f"{d}/../{os.path.basename(d)}//./{name}", cwd
    if kind.endswith("through a symlinked directory"):
        link = os.path.join(os.path.dirname(d), "link to " + os.path.basename(d))
        if not os.path.islink(link):
            os.symlink(d, link)
        p = os.path.join(link, name)
        return (pathlib.PurePosixPath(p) if kind.startswith("pathlib") else p), cwd
    raise ValueError(kind)


def _simtime(tab):
    v = tab.meta.get("simTime")
    return str(v[0] if isinstance(v, tuple) else v)


def _disk_state(abs_path):
    if not os.path.exists(abs_path):
        return None
    try:
        return strip_simtime(file_state(abs_path))
    except Exception as ex:  # noqa
        return ("unreadable", type(ex).__name__)


def staged_step(arg):
    """One run of compute(write_stages=True) as a step of a history (JSON-able argument: also executed in a child process).
    arg: spec, path (absolute), spelling, cwd, fault = None | [stage name, 'raise' | 'exit'], observe = record what is on disk
    when each stage starts."""
    spec, abs_path = arg["spec"], arg["path"]
    obj, run_cwd = _spell(arg["spelling"], abs_path, arg["cwd"])
    sites, _ = stage_sites(spec["mode"] == "Target", spec["optical"], spec["radio"])
    fault = arg.get("fault")
    res = {"output_file": repr(obj), "run_cwd": run_cwd, "raised": None, "reached": False, "simtime": None, "checkpoints": []}

    def at(site):
        def action():
            if arg.get("observe"):
                res["checkpoints"].append((site[0], site[5], _disk_state(abs_path)))
            if fault and fault[0] == site[0]:
                res["reached"] = True
                if fault[1] == "exit":
                    os._exit(7)
                raise InjectedFault(site[0])
        return action

    old = os.getcwd()
    os.chdir(run_cwd)
    try:
        with contextlib.ExitStack() as st:
            for site in sites:
                if arg.get("observe") or (fault and fault[0] == site[0]):
                    st.enter_context(inject(site, at(site)))
            try:
                sim = run_compute(spec, obj)
                res["simtime"], res["rows"] = _simtime(sim), len(sim)
            except InjectedFault as ex:
                res["raised"] = ["InjectedFault", str(ex)]
            except Exception as ex:  # noqa
                res["raised"] = [type(ex).__name__, str(ex)[:160]]
    finally:
        os.chdir(old)
    return res


_THIS_FILE = os.path.abspath(__file__)  # (taken at import: the streams below change the working directory)
CHILD_STEP = r"""
import json, os, sys, warnings
warnings.filterwarnings("ignore")
import importlib.util
spec_ = importlib.util.spec_from_file_location("c17", sys.argv[1])
m = importlib.util.module_from_spec(spec_); spec_.loader.exec_module(m)
arg = json.loads(sys.argv[2])
res = m.staged_step(arg)
with open(arg["result"], "w") as f:
    json.dump(res, f)
os._exit(0)
"""


def _step_in_child(arg):
    p = subprocess.run([sys.executable, "-c", CHILD_STEP, _THIS_FILE, json.dumps(arg)], capture_output=True, text=True, cwd=arg["cwd"],
                       env={**os.environ, "C17_CHILD": "1",
                            "PYTHONPATH": os.path.dirname(os.path.dirname(_THIS_FILE)) + os.pathsep + os.environ.get("PYTHONPATH", "")})
    if p.returncode == 7 and arg.get("fault") and arg["fault"][1] == "exit":
        obj, run_cwd = _spell(arg["spelling"], arg["path"], arg["cwd"])
        return {"output_file": repr(obj), "run_cwd": run_cwd, "raised": None, "reached": True, "died": True, "simtime": None, "checkpoints": []}
    if p.returncode != 0 or not os.path.exists(arg["result"]):
        raise InfraError(f"history step in a child process failed: rc={p.returncode} {p.stderr[-300:]}")
    with open(arg["result"]) as f:
        return json.load(f)


def _listing(d):
    return sorted(os.listdir(d))


def play_history(hist, bases, wd, in_child):
    """run the steps of one history on one output path; after each step the file is copied aside and the directories are listed
    (judged afterwards, in the main thread). hist: {dir, name, steps: [{spec: label, fault: None | [stage, how], spelling}]}"""
    outdir = os.path.join(wd, hist["dir"])
    os.makedirs(outdir)
    side = os.path.join(wd, "observed")
    os.makedirs(side)
    cwd = hist["cwd"] = os.path.join(wd, "cwd")  # a working directory of the history's own: what appears in it was put there by its runs
    os.makedirs(cwd)
    abs_path = os.path.join(outdir, hist["name"])
    out = []
    for i, step in enumerate(hist["steps"]):
        arg = {"spec": bases[step["spec"]]["spec"], "path": abs_path, "spelling": step["spelling"], "cwd": cwd, "fault": step["fault"],
               "observe": bool(step.get("observe")), "result": os.path.join(side, f"result{i}.json")}
        before = {"outdir": _listing(outdir), "cwd": _listing(cwd)}
        res = _step_in_child(arg) if in_child else staged_step(arg)
        copy = None
        if os.path.exists(abs_path):
            copy = os.path.join(side, f"after{i}.fits")
            shutil.copyfile(abs_path, copy)
        out.append({"res": res, "copy": copy, "before": before, "after": {"outdir": _listing(outdir), "cwd": _listing(cwd)}})
    return out


def judge_history(ctx, hist, bases, played, where):
    name = hist["name"]
    told = [f"{s['spec']}:{'no failure' if not s['fault'] else s['fault'][1] + ' in ' + s['fault'][0]} [{s['spelling']}]" for s in hist["steps"]]
    for i, (step, o) in enumerate(zip(hist["steps"], played)):
        base, res, fault = bases[step["spec"]], o["res"], step["fault"]
        spec = base["spec"]
        case = {"config": spec_key(spec), "thrown_events": spec["n"], "seed": spec["seed"], "log_nu_energy": spec["loge"],
                "output_file": res["output_file"], "spelling": step["spelling"], "working_directory": "the output directory" if res["run_cwd"] != hist["cwd"] else "another directory",
                "processes": where, "history_on_this_path": told, "step": i + 1, "failure_injected": fault}
        ctx.case(("history", where, hist["id"], i), {"op": "run k of a history on one output path", **case} if i == 1 and hist["id"] == 0 else None)
        ctx.count("history_steps_" + where.replace(" ", "_"))
        how = "no-failure" if not fault else ("after-raise" if fault[1] == "raise" else "after-process-death")
        # (a) what comes out of compute()
        if res["raised"] and res["raised"][0] != "InjectedFault":
            if fault and res["reached"]:
                ctx.violation("compute", "fault-not-propagated", f"the failure injected in stage {fault[0]} came out as {res['raised'][0]}: {res['raised'][1]}", case)
            else:
                ctx.violation("compute", "raises-although-no-stage-failed",
                              f"compute(write_stages=True, output_file={res['output_file']}) raises {res['raised'][0]}: {res['raised'][1][:120]} although no stage failed"
                              + (f" (run {i + 1} on this path; earlier runs: {told[:i]})" if i else ""), case)
            continue
        if fault and not res["raised"] and not res.get("died"):
            ctx.violation("compute", "fault-not-propagated", f"an exception raised inside stage {fault[0]} did not come out of compute()", case)
            continue
        # (b) the file left by THIS step
        k = None if not fault else [s for s in base["sites"] if s[0] == fault[0]][0][5]
        want = strip_simtime(base["final"]) if not fault else strip_simtime(base["states"][k - 1])
        if o["copy"] is None:
            ctx.violation("StagedWriter", f"file-missing:{how}", "staged writing is on and stages completed, but there is no file at the output path", case)
        else:
            try:
                left = file_state(o["copy"])
            except Exception as ex:  # noqa
                ctx.violation("StagedWriter", f"leftover-unreadable:{how}", f"file left on disk is not a readable FITS table: {type(ex).__name__}", case)
                left = None
            if left is not None and strip_simtime(left) != want:
                ctx.violation("StagedWriter", f"leftover-not-this-runs-prefix:{how}",
                              "the file left on disk is not the table of the stages completed by this run" if fault else "the file left on disk is not the final table of this run",
                              {**case, "file_columns": [n for n, _ in left[0]], "expected_columns": [n for n, _ in want[0]]})
            elif left is not None and not fault and res["simtime"] is not None and dict(left[1]).get("SIMTIME") != repr(res["simtime"]):
                ctx.violation("StagedWriter", f"leftover-not-this-runs-prefix:{how}", "the header on disk is not this run's header", case)
        # (c) what the stages of a run must have found on disk (recorded when each stage started)
        for stage, kb, state in res["checkpoints"]:
            state = None if state is None else (list(map(list, state[0])), list(map(list, state[1]))) if len(state) == 2 and state[0] != "unreadable" else state
            wantk = None if kb == 0 else strip_simtime(base["states"][kb - 1])
            wantk = None if wantk is None else ([list(c) for c in wantk[0]], [list(m_) for m_ in wantk[1]])
            if kb == 0 and i > 0:
                continue  # before the first boundary of a later run the path still holds the earlier run
            if state != wantk:
                cls = "file-missing-at-stage-boundary" if state is None else ("file-exists-before-first-boundary" if wantk is None else "file-at-stage-boundary-is-not-the-prefix")
                ctx.violation("StagedWriter", cls, f"when stage {stage} starts ({kb} boundaries completed) the output path does not hold the table of the completed stages",
                              {**case, "stage_about_to_start": stage, "boundaries_completed": kb, "on_disk": None if state is None else [c[0] for c in state[0]] if state[0] != "unreadable" else list(state)})
                break
        # (d) a run leaves the output file and nothing else
        extra = sorted(set(o["after"]["outdir"]) - set(o["before"]["outdir"]) - {name})
        extra_cwd = [] if res["run_cwd"] != hist["cwd"] else sorted(set(o["after"]["cwd"]) - set(o["before"]["cwd"]))
        if extra or extra_cwd:
            ctx.violation("compute", f"leaves-other-files:{how}", "the run left more than the output file on disk",
                          {**case, "output_directory_before": o["before"]["outdir"], "output_directory_after": o["after"]["outdir"], "new_in_working_directory": extra_cwd})


def _reference(ctx, spec, wd, rng):
    """a verified complete run (complete_run) on a fresh str path: its per-boundary states are the prefixes of every other run of spec"""
    for attempt in range(4):
        spec = {**spec, "n": int(rng.integers(100, 160)), "seed": int(rng.integers(2**31)), "loge": float(round(rng.uniform(8.0, 10.0), 1))}
        d = os.path.join(wd, f"try{attempt}")
        os.makedirs(d)
        base = complete_run(ctx, spec, d)
        if base is not None:
            base["spec"] = spec
            return base
    return None


def name_and_history_streams(ctx, work):
    from concurrent.futures import ThreadPoolExecutor
    rng = ctx.rng
    top = os.path.join(work, "names-and-histories")
    cwd = os.path.join(top, "cwd")
    os.makedirs(cwd)
    old_cwd = os.getcwd()
    os.chdir(cwd)
    try:
        bases = {"A": _reference(ctx, {"mode": "Diffuse", "optical": True, "radio": False, "spectrum": "mono"}, os.path.join(top, "refA"), rng),
                 "B": _reference(ctx, {"mode": "Diffuse", "optical": False, "radio": True, "spectrum": "power"}, os.path.join(top, "refB"), rng)}
        if bases["A"] is None or bases["B"] is None:
            ctx.notes.append("names-and-histories: no reference run with surviving events; streams skipped")
            return
        try:
            for n_ in DIR_NAMES + FILE_NAMES:
                os.fsencode(n_)
            dirs, files = list(DIR_NAMES), list(FILE_NAMES)
        except UnicodeError:
            dirs, files = DIR_NAMES[:2], [f for f in FILE_NAMES if f.isascii()]
        pool = {"d": [], "f": []}

        def pick(which, src):
            if not pool[which]:
                pool[which] = [src[j] for j in rng.permutation(len(src))]
            return pool[which].pop()

        def fault_in(label, how, other_than=None):
            cand = [s[0] for s in bases[label]["sites"] if s[5] >= 1 and s[0] != other_than]
            return [cand[int(rng.integers(len(cand)))], how]

        def some_spelling():
            return SPELLINGS[int(rng.integers(len(SPELLINGS)))]

        def history(steps, one_spelling=True):
            """the fixed patterns name the path in ONE way throughout (chosen at random); the random histories mix the spellings"""
            if one_spelling:
                sp = some_spelling()
                steps = [{**s_, "spelling": s_["spelling"] or sp} for s_ in steps]
            return {"dir": pick("d", dirs), "name": pick("f", files), "steps": steps}

        def step(label, fault=None, spelling=None, observe=False):
            return {"spec": label, "fault": fault, "spelling": spelling, "observe": observe}

        def random_history(hows):
            n_steps = int(rng.integers(3, 5))
            steps = []
            for j in range(n_steps):
                label = "AB"[int(rng.integers(2))]
                kind = (["clean"] + hows)[int(rng.integers(1 + len(hows)))] if j < n_steps - 1 else "clean"
                steps.append(step(label, None if kind == "clean" else fault_in(label, kind), spelling=some_spelling()))
            return history(steps, one_spelling=False)

        # (2) histories, each step in a fresh process (started first, they run beside the in-process streams)
        f1 = fault_in("A", "raise")
        fresh = [history([step("A", fault_in("A", "raise")), step("B")]),
                 history([step("B", fault_in("B", "exit")), step("A")]),
                 history([step("A"), step("B")]),
                 history([step("A", f1), step("A", fault_in("A", "raise", other_than=f1[0]))]),
                 history([step("B", fault_in("B", "exit")), step("A", fault_in("A", "raise")), step("B")])]
        fresh += [random_history(["raise", "exit"]) for _ in range(8 if ctx.thorough else 1)]
        # (2) the same kinds of history with all steps in this process
        f2 = fault_in("B", "raise")
        here = [history([step("A", fault_in("A", "raise")), step("B")]),
                history([step("A"), step("B")]),
                history([step("B", f2), step("B", fault_in("B", "raise", other_than=f2[0]))]),
                history([step("B"), step("A", fault_in("A", "raise")), step("A")])]
        here += [random_history(["raise"]) for _ in range(8 if ctx.thorough else 1)]
        # (1) every spelling of the name: one observed run each (quick), followed by a failing run on the same path (thorough)
        for sp in SPELLINGS[1:]:  # 'str, absolute' is the reference run itself
            for label in ("AB" if ctx.thorough else "A"):
                steps = [step(label, spelling=sp, observe=True)]
                if ctx.thorough:
                    steps.append(step(label, fault_in(label, "raise"), spelling=sp, observe=True))
                here.append(history(steps))
        for j, h in enumerate(fresh):
            h["id"] = j
        for j, h in enumerate(here):
            h["id"] = j
        ref = {k_: {"spec": b["spec"]} for k_, b in bases.items()}
        with ThreadPoolExecutor(max_workers=8) as ex:
            futs = [ex.submit(play_history, h, ref, os.path.join(top, f"fresh{h['id']}"), True) for h in fresh]
            for h in here:
                wd = os.path.join(top, f"here{h['id']}")
                judge_history(ctx, h, bases, play_history(h, ref, wd, False), "one process")
            for h, fu in zip(fresh, futs):
                judge_history(ctx, h, bases, fu.result(), "a fresh process per run")
    finally:
        os.chdir(old_cwd)


def regen():
    """source tie: Gen/Src/C14.lean (shared with C14) regenerated from compute() of the working tree (harness/orchtrans.py)"""
    import orchtrans
    return orchtrans.regen()


def source_tie(ctx, key, target, optical, radio, observed):
    """the writer operations the reader of the source predicts (harness/orchtrans.py) against the boundaries RECORDED from the
    real compute() run (one snapshot per completed Table.write).  A difference is a broken tie, not by itself a violation."""
    import orchtrans
    st = ctx.extra.setdefault("source_tie", {}).setdefault("ops", {"runs_compared": 0, "differences": []})
    try:
        if "_orch" not in ctx.__dict__:
            ctx._orch = orchtrans.read()
        want = orchtrans.predict(ctx._orch, bool(target), bool(optical), bool(radio))
    except Exception as e:  # noqa: BLE001 - the regeneration has already reported it as a broken obligation
        ctx.disagree("source_tie.ops", {"error": f"{type(e).__name__}: {str(e)[:200]}"})
        return
    st["runs_compared"] += 1
    ctx.count("source_tie.runs_compared")
    if observed != want:
        d = {"config": key, "recorded_from_the_run": observed, "read_from_the_source": want}
        st["differences"].append(d)
        ctx.disagree("source_tie.ops", d)


def search(ctx: Ctx):
    if ctx.tier != "thorough":
        ctx.tier = "thorough"
        run(ctx)


if __name__ == "__main__":
    sys.exit(main_for("C17", sys.modules[__name__]))
