"""Regenerate every Gen/*.lean from /repo (used by setup.sh; each check also regenerates what it needs)."""
import importlib
import sys
import warnings
from pathlib import Path

warnings.filterwarnings("ignore")
HERE = Path(__file__).resolve().parent
sys.path.insert(0, str(HERE))
sys.path.insert(0, str(HERE / "props"))
import common  # noqa: E402

common.regen_ops_index()
done = set()
for p in sorted((HERE / "props").glob("C*.py")):
    mod = importlib.import_module(p.stem)
    fn = getattr(mod, "regen", None)
    if fn is None or fn in done:
        continue
    done.add(fn)
    print(p.stem, fn())
common.regen_ops_index()
