"""Source tie for the time grid of Target mode: `RegionGeomToO.generate_times` (region_geometry.py) is read statement by
statement and regenerated as `lean/NssVerif/Gen/Src/C13Time.lean`.

Recognised, in this order (anything else raises `Unsupported`: failed regeneration = broken tie):

    if isinstance(times, int): times = np.arange(times) / times     ->  offsets k / n, k = 0 … n-1 (n instants)
    if times is None: raise RuntimeError(…)
    times = times * self.<attr>                                       ->  scaled by the observation window, in source order
    times = TimeDelta(times, format="sec")                            ->  the unit: seconds
    times = self.too_source.eventtime + times                         ->  offsets from the source date
    return times

and, in `RegionGeomToO.__init__`, the one assignment of `self.<attr>` from the configuration (its attribute path is recorded).
The emitted function is the list of offsets in seconds in the operation order of the source.  `Props/C13.lean` proves it is
the model's `timeOffsets`, about which the grid theorems (count, first instant, spacing, range, last instant) are proved.
"""
from __future__ import annotations

import ast
import hashlib
from pathlib import Path

from common import LEAN, REPO, write_if_changed

REL = "src/nuspacesim/simulation/geometry/region_geometry.py"


class Unsupported(Exception):
    pass


def _need(cond, what, node=None):
    if not cond:
        where = f" (line {node.lineno})" if node is not None and hasattr(node, "lineno") else ""
        raise Unsupported(f"RegionGeomToO.generate_times: {what}{where}")


def read(repo: Path = REPO) -> dict:
    tree = ast.parse((Path(repo) / REL).read_text())
    cls = next((n for n in tree.body if isinstance(n, ast.ClassDef) and n.name == "RegionGeomToO"), None)
    _need(cls is not None, "class RegionGeomToO not found")
    fns = {n.name: n for n in cls.body if isinstance(n, ast.FunctionDef)}
    _need("generate_times" in fns and "__init__" in fns, "generate_times / __init__ not found")
    fn = fns["generate_times"]
    _need([a.arg for a in fn.args.args] == ["self", "times"] and not fn.decorator_list, "signature (self, times) expected", fn)
    t = "times"
    body = [s for s in fn.body if not (isinstance(s, ast.Expr) and isinstance(s.value, ast.Constant))]
    _need(len(body) == 6, f"{len(body)} statements where six are expected", fn)
    s_int, s_none, s_scale, s_delta, s_add, s_ret = body

    def assign_times(s, what):
        _need(isinstance(s, ast.Assign) and len(s.targets) == 1 and isinstance(s.targets[0], ast.Name) and s.targets[0].id == t, f"{what}: `times = …` expected", s)
        return s.value

    # 1. integer argument -> arange(n) / n
    _need(isinstance(s_int, ast.If) and not s_int.orelse and len(s_int.body) == 1 and ast.unparse(s_int.test) == "isinstance(times, int)",
          "`if isinstance(times, int):` expected", s_int)
    v = assign_times(s_int.body[0], "integer branch")
    _need(isinstance(v, ast.BinOp) and isinstance(v.op, ast.Div) and ast.unparse(v.left) == "np.arange(times)" and ast.unparse(v.right) == "times",
          "`np.arange(times) / times` expected", v)
    # 2. None -> error
    _need(isinstance(s_none, ast.If) and not s_none.orelse and ast.unparse(s_none.test) == "times is None" and len(s_none.body) == 1
          and isinstance(s_none.body[0], ast.Raise), "`if times is None: raise …` expected", s_none)
    # 3. scale by the window
    v = assign_times(s_scale, "scaling")
    _need(isinstance(v, ast.BinOp) and isinstance(v.op, ast.Mult), "`times * self.<window>` expected", v)
    l, r = ast.unparse(v.left), ast.unparse(v.right)
    _need((l == t and r.startswith("self.")) or (r == t and l.startswith("self.")), "`times * self.<window>` expected", v)
    times_left = l == t
    attr = (r if times_left else l)[len("self."):]
    _need(attr.isidentifier(), "window attribute must be a plain attribute of self", v)
    # 4. seconds
    v = assign_times(s_delta, "TimeDelta")
    _need(isinstance(v, ast.Call) and ast.unparse(v.func) == "TimeDelta" and len(v.args) == 1 and ast.unparse(v.args[0]) == t
          and [(k.arg, ast.unparse(k.value)) for k in v.keywords] == [("format", "'sec'")], "`TimeDelta(times, format=\"sec\")` expected", v)
    # 5. offsets from the source date
    v = assign_times(s_add, "epoch")
    _need(isinstance(v, ast.BinOp) and isinstance(v.op, ast.Add) and {ast.unparse(v.left), ast.unparse(v.right)} == {"self.too_source.eventtime", t},
          "`self.too_source.eventtime + times` expected", v)
    _need(isinstance(s_ret, ast.Return) and ast.unparse(s_ret.value) == t, "`return times` expected", s_ret)
    # the window attribute: exactly one assignment in __init__, from the configuration
    sets = [s for s in ast.walk(fns["__init__"]) if isinstance(s, ast.Assign) and any(ast.unparse(x) == f"self.{attr}" for x in s.targets)]
    _need(len(sets) == 1, f"self.{attr} must be assigned exactly once in __init__", fns["__init__"])
    src = ast.unparse(sets[0].value)
    _need(src.startswith("self.config.") or src.startswith("config."), f"self.{attr} must be read from the configuration", sets[0])
    others = [s for f in cls.body if isinstance(f, ast.FunctionDef) and f.name != "__init__" for s in ast.walk(f)
              if isinstance(s, (ast.Assign, ast.AugAssign)) and any(ast.unparse(x) == f"self.{attr}" for x in (s.targets if isinstance(s, ast.Assign) else [s.target]))]
    _need(not others, f"self.{attr} is reassigned outside __init__", others[0] if others else None)
    return {"window_attr": attr, "window_source": src.replace("self.", "", 1) if src.startswith("self.") else src, "times_left": times_left,
            "where": f"{REL}:{fn.lineno}-{fn.end_lineno}",
            "ast_sha256": hashlib.sha256((ast.dump(fn) + ast.dump(sets[0])).encode()).hexdigest()}


def emit(d: dict) -> str:
    prod = "(ofNat k : α) / ofNat n * T" if d["times_left"] else "T * ((ofNat k : α) / ofNat n)"
    return f"""import NssVerif.Model.Scalar
/-!
GENERATED on every run by harness/timetrans.py from the source of the working tree — do not edit.

* `RegionGeomToO.generate_times`  <-  {d['where']}   (ast sha256 {d['ast_sha256'][:16]})
-/
namespace Gen.Src.C13Time
variable {{α : Type}} [Scalar α]
open Scalar

/-- where `__init__` reads the observation window from -/
def windowSource : String := "{d['window_source']}"

/-- `generate_times(n)` for an integer `n`, as offsets in seconds from the source date: `np.arange(n) / n`, scaled by the
window `T = self.{d['window_attr']}`, in the operation order of the source -/
def offsets (n : Nat) (T : α) : List α :=
  (List.range n).map fun k => {prod}

end Gen.Src.C13Time
"""


def regen() -> dict:
    d = read()
    ch = write_if_changed(LEAN / "NssVerif" / "Gen" / "Src" / "C13Time.lean", emit(d))
    return {"Gen/Src/C13Time.lean": {"changed": bool(ch), "functions": {"offsets": {
        "source": "nuspacesim.simulation.geometry.region_geometry.RegionGeomToO.generate_times", "where": d["where"],
        "ast_sha256": d["ast_sha256"][:16], "recognised": {k: v for k, v in d.items() if k not in ("where", "ast_sha256")}}}}}


if __name__ == "__main__":
    import json
    print(json.dumps(regen(), indent=1))
