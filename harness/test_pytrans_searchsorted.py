"""Test of the pytrans addition `np.searchsorted(<concrete strictly increasing float64 table>, x)` -> `Np.searchsortedLeft [literals] x`:
run as `VERIF_REPO=<tree> PYTHONPATH=harness /venv/bin/python harness/test_pytrans_searchsorted.py`."""
import pytrans
import srctie

AM = "nuspacesim.simulation.eas_optical.atmospheric_models"
r = pytrans.translate(pytrans.FnSpec(AM, "cummings_atmospheric_density", "rho", sym_params={"z": "z"}), srctie.SRC)
txt = pytrans.emit_module("Gen.Src.T", [r], "test")
assert "Np.searchsortedLeft [(4.0 : α), (10.0 : α), (40.0 : α), (100.0 : α)]" in txt, txt
try:   # side='right' and the index arithmetic of us_std_atm_density stay unreadable
    pytrans.translate(pytrans.FnSpec(AM, "us_std_atm_density", "rho2", sym_params={"z": "z"}), srctie.SRC)
    raise SystemExit("us_std_atm_density must be Unsupported")
except pytrans.Unsupported:
    pass
print("ok")
