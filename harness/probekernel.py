"""A `CphotAng` whose per-event evaluation is replaced by a cheap function of the event (module level: picklable for the
process scheduler).  Used to drive the REAL batch entry point `CphotAng.__call__` with production-size batches."""
from nuspacesim.simulation.eas_optical.cphotang import CphotAng


class ProbeKernel(CphotAng):
    def run(self, betaE, alt, Eshow100PeV, init_lat, init_long, cloudf=None):
        return (float(betaE) * 1000.0 + float(alt) + float(Eshow100PeV) * 1e-3, float(init_lat))
