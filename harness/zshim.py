"""Rebuild nuspacesim's zsteps.cpp FROM THE WORKING TREE with g++ against stub pybind11 headers, load it with ctypes,
compare it with the packaged extension and install it as `cphotang.cppzsteps`.

There is no pybind11 in the sandbox and the packaged `.so` is not tracked by git, so without this an edit of
zsteps.cpp would never reach Python.  `install()` is idempotent and cheap (about 1.5 s for the compile)."""
from __future__ import annotations

import ctypes
import hashlib
import os
import subprocess
from pathlib import Path

import numpy as np

from common import REPO, InfraError

HERE = Path(__file__).resolve().parent / "zsteps_shim"
BUILD = HERE / "build"
SRC_DIR = REPO / "src" / "nuspacesim" / "simulation" / "eas_optical" / "src"

_state: dict = {}


def build() -> Path:
    """g++ the current zsteps.cpp; output named by content hash (concurrent checks never clobber each other)."""
    BUILD.mkdir(exist_ok=True)
    parts = [SRC_DIR / "zsteps.cpp", HERE / "wrap.cpp", HERE / "pybind11" / "pybind11.h", HERE / "pybind11" / "numpy.h"]
    hsh = hashlib.sha256(b"".join(p.read_bytes() for p in parts)).hexdigest()[:16]
    out = BUILD / f"zsteps_{hsh}.so"
    tmp = BUILD / f"zsteps_{hsh}.{os.getpid()}.tmp.so"
    cmd = ["g++", "-O2", "-shared", "-fPIC", "-std=c++14", "-ffp-contract=off", f"-I{HERE}", f"-I{SRC_DIR}",
           str(HERE / "wrap.cpp"), "-o", str(tmp)]
    p = subprocess.run(cmd, capture_output=True, text=True)
    if p.returncode != 0:
        raise InfraError("zsteps.cpp does not compile against the stub headers: " + p.stderr[-1500:])
    tmp.replace(out)
    return out


class Rebuilt:
    """The rebuilt extension with pybind11's overload rule applied by hand: every argument is a float or a numpy
    floating scalar, which every registered overload accepts (np.float64 is a Python float and passes the first,
    non-converting pass; np.float32 passes only the converting pass) -- in both passes the FIRST registered overload
    that accepts wins, so the first registered overload is always the one that runs."""

    def __init__(self, path: Path):
        self.path = path
        self.lib = ctypes.CDLL(str(path))
        d, f, l = ctypes.c_double, ctypes.c_float, ctypes.c_long
        self.lib.zsteps_f64.argtypes = [d] * 7 + [ctypes.POINTER(d), ctypes.POINTER(d), l]
        self.lib.zsteps_f64.restype = l
        self.lib.zsteps_f32.argtypes = [f] * 7 + [ctypes.POINTER(f), ctypes.POINTER(f), l]
        self.lib.zsteps_f32.restype = l
        self.lib.zsteps_overload.argtypes = [ctypes.c_int]
        self.lib.zsteps_overload.restype = ctypes.c_int
        self.overloads = []
        k = 0
        while self.lib.zsteps_overload(k) > 0:
            self.overloads.append({8: "double", 4: "float"}.get(self.lib.zsteps_overload(k), "?"))
            k += 1
        self.calls = 0

    def raw(self, kind: str, *args):
        fn, ct, dt = ((self.lib.zsteps_f64, ctypes.c_double, np.float64) if kind == "double"
                      else (self.lib.zsteps_f32, ctypes.c_float, np.float32))
        a = [float(x) for x in args]
        n = fn(*a, None, None, 0)
        zs = np.empty(n, dtype=dt)
        dz = np.empty(n, dtype=dt)
        if n:
            fn(*a, zs.ctypes.data_as(ctypes.POINTER(ct)), dz.ctypes.data_as(ctypes.POINTER(ct)), n)
        return zs, dz

    def zsteps(self, z, sinThetView, RadE, zMaxZ, zmax, dL, pi):
        self.calls += 1
        if not self.overloads:
            raise TypeError("zsteps(): no overload registered")
        return self.raw(self.overloads[0], z, sinThetView, RadE, zMaxZ, zmax, dL, pi)


def install() -> dict:
    """Build, load, compare with the packaged extension, monkey-patch cphotang.cppzsteps.  Returns evidence."""
    if _state:
        return _state["info"]
    import nuspacesim.simulation.eas_optical.cphotang as cph

    path = build()
    rb = Rebuilt(path)
    info = {"rebuilt_from": str(SRC_DIR / "zsteps.cpp"), "overloads_in_registration_order": rb.overloads,
            "packaged_extension": None, "stale_extension": None}
    packaged = getattr(cph, "cppzsteps", None)
    if packaged is not None and not getattr(packaged, "_verif_rebuilt", False):
        info["packaged_extension"] = getattr(__import__("sys").modules.get(packaged.__module__), "__file__", "?")
        rng = np.random.Generator(np.random.PCG64(12345))
        stale = 0
        ncmp = 0
        f32 = np.float32
        for _ in range(40):
            beta = np.radians(rng.uniform(1.0, 42.0))
            z0 = rng.uniform(0.0, 20.0)
            s = f32(np.sin(np.arcsin(f32(6378.14) / (f32(6378.14) + f32(525.0)) * np.cos(f32(beta)))))
            for args in ((z0, s, f32(6378.14), f32(65.0), f32(525.0), f32(0.1), f32(3.1415926)),
                         (z0, float(s), 6378.14, 65.0, 525.0, 0.1, 3.1415926)):
                a = packaged(*args)
                b = rb.zsteps(*args)
                ncmp += 1
                if not (a[0].dtype == b[0].dtype and a[0].shape == b[0].shape and np.array_equal(a[0], b[0])
                        and np.array_equal(a[1], b[1])):
                    stale += 1
        info["stale_extension"] = bool(stale)
        info["packaged_vs_rebuilt_calls"] = ncmp
        info["packaged_vs_rebuilt_differ"] = stale
    rb.zsteps.__func__._verif_rebuilt = True
    cph.cppzsteps = rb.zsteps
    _state["info"] = info
    _state["rb"] = rb
    return info


def rebuilt() -> Rebuilt:
    install()
    return _state["rb"]
