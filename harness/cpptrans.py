"""A strict reader of ONE C++ shape: the altitude-stepping template of `src/nuspacesim/simulation/eas_optical/src/zsteps.cpp`.

`zsteps.cpp` is 30 lines of arithmetic in a `while` loop behind pybind11 boilerplate.  This module does not try to read C++ in
general; it reads exactly this shape and raises `pytrans.Unsupported` on anything else (so an edit that leaves the shape makes
the regeneration fail, which the verdict logic reports as a broken tie — it never guesses):

    template <typename T>
    auto NAME(T p1, …, T pn) -> std::pair<py::array_t<T>, py::array_t<T>> {
      auto V1 = std::vector<T>();  auto V2 = std::vector<T>();      // the two output vectors
      auto x = EXPR; …                                               // loop-invariant prelude
      while (A <= B) {                                               // (also <, >=, >)
        auto y = EXPR; …                                             // the step
        Vi.push_back(EXPR); Vj.push_back(EXPR);                      // one push per vector per iteration
        p += EXPR;                                                   // exactly one update, of a parameter, last statement
      }
      auto py_Vi = py::array_t<T>(Vi.size()); … std::memcpy(…, Vi.data(), …);   // copies, checked to pair py_V with V
      return { py_Va, py_Vb };
    }

EXPR is + − * / over identifiers, decimal literals and the calls acos / cos / sin / sqrt with the usual precedences and
left-to-right association — C++ evaluates `a - b - c` as `(a - b) - c` and so does the emitted Lean.  The arithmetic type is
the template parameter (both instantiations are registered; production reaches the `double` one, see harness/zshim.py), the
literals `2.0` are doubles: in the `double` instantiation no conversion occurs, which is the instantiation translated.
(Assumed, part of the trusted base: IEEE binary64 arithmetic without contraction — the shim compiles with `-ffp-contract=off` —
and libm's acos/cos/sqrt, which are the ones Lean's `Float` calls.)

What is emitted (into `Gen/Src/C06.lean` through the ordinary `pytrans.Result`, so the driver operation and the evidence
entry come for free):

    structure <Name>Out (α) where  cond : Bool   ret0_push : α   ret1_push : α   state_next : α
                                   -- ret0 / ret1: what one iteration appends to the vector returned FIRST / SECOND (Python unpacks
                                   -- the pair by position); state_next: the updated loop variable
    def <name> (p1 … pn : α) : <Name>Out α       -- the loop test at the current state and ONE iteration's effects

The loop itself (repeat while `cond`, collect the pushes in order, return the pair in the order of the `return` statement) is
the shape this reader has checked; `Model.Cphot.zstepsAux` is that loop with fuel, and the bridging theorem `src_zstepsAux`
unfolds one iteration of it into the emitted definition."""
from __future__ import annotations

import hashlib
import re
from pathlib import Path

import pytrans
from pytrans import Sym, SymB, Unsupported

FUNCS = {"acos": "Scalar.acos", "cos": "Scalar.cos", "sin": "Scalar.sin", "sqrt": "Scalar.sqrt"}
TOK = re.compile(r"\s*(?:(?P<num>\d+\.\d*(?:[eE][+-]?\d+)?|\d+[eE][+-]?\d+|\d+)|(?P<id>[A-Za-z_]\w*)|(?P<op>[-+*/()]))")


class _Expr:
    def __init__(self, text: str, names: dict):
        self.toks = []
        pos = 0
        text = text.strip()
        while pos < len(text):
            m = TOK.match(text, pos)
            if not m:
                raise Unsupported(f"zsteps.cpp: cannot tokenise `{text[pos:pos + 20]}` in `{text}`")
            self.toks.append((m.lastgroup, m.group(m.lastgroup)))
            pos = m.end()
        self.i, self.names, self.text = 0, names, text

    def peek(self):
        return self.toks[self.i] if self.i < len(self.toks) else (None, None)

    def take(self):
        t = self.peek()
        self.i += 1
        return t

    def parse(self) -> str:
        r = self.sum()
        if self.i != len(self.toks):
            raise Unsupported(f"zsteps.cpp: trailing tokens in `{self.text}`")
        return r

    def sum(self) -> str:
        a = self.prod()
        while self.peek() in (("op", "+"), ("op", "-")):
            o = self.take()[1]
            a = f"({a} {o} {self.prod()})"
        return a

    def prod(self) -> str:
        a = self.unary()
        while self.peek() in (("op", "*"), ("op", "/")):
            o = self.take()[1]
            a = f"({a} {o} {self.unary()})"
        return a

    def unary(self) -> str:
        if self.peek() == ("op", "-"):
            self.take()
            return f"(-{self.unary()})"
        return self.atom()

    def atom(self) -> str:
        k, v = self.take()
        if k == "num":
            if "." not in v and "e" not in v.lower():
                return f"({int(v)} : α)"
            m, _, e = v.lower().partition("e")
            if m.endswith("."):
                m += "0"
            return f"({m}{'e' + str(int(e)) if e else ''} : α)"
        if k == "id":
            if self.peek() == ("op", "("):
                if v not in FUNCS:
                    raise Unsupported(f"zsteps.cpp: call of `{v}` (only {sorted(FUNCS)} are read)")
                self.take()
                a = self.sum()
                if self.take() != ("op", ")"):
                    raise Unsupported(f"zsteps.cpp: `{v}(` takes one argument in `{self.text}`")
                return f"({FUNCS[v]} {a})"
            if v not in self.names:
                raise Unsupported(f"zsteps.cpp: `{v}` is used before it is defined in `{self.text}`")
            return self.names[v]
        if (k, v) == ("op", "("):
            a = self.sum()
            if self.take() != ("op", ")"):
                raise Unsupported(f"zsteps.cpp: unbalanced parentheses in `{self.text}`")
            return a
        raise Unsupported(f"zsteps.cpp: unexpected `{v}` in `{self.text}`")


def _strip_comments(t: str) -> str:
    t = re.sub(r"/\*.*?\*/", " ", t, flags=re.S)
    return re.sub(r"//[^\n]*", " ", t)


def _stmts(block: str) -> list[str]:
    out = [s.strip() for s in block.split(";")]
    if out and out[-1] == "":
        out.pop()
    if any(not s for s in out):
        raise Unsupported("zsteps.cpp: empty statement")
    return [" ".join(s.split()) for s in out]


class CppSpec(pytrans.FnSpec):
    """a `FnSpec` whose translation is done by this module (`pytrans.translate` dispatches on the attribute `translate`)"""

    def __init__(self, relpath: str, func: str, name: str, rename: dict | None = None, doc: str = ""):
        super().__init__(module=relpath, qualname=func, name=name, doc=doc)
        self.relpath, self.func, self.rename = relpath, func, dict(rename or {})

    def translate(self, repo_src: Path) -> pytrans.Result:
        path = repo_src / self.relpath
        if not path.exists():
            raise Unsupported(f"{path} does not exist")
        raw = path.read_text()
        text = _strip_comments(raw)
        m = re.search(r"template\s*<\s*typename\s+(\w+)\s*>\s*auto\s+" + re.escape(self.func)
                      + r"\s*\(([^)]*)\)\s*->\s*std::pair<\s*py::array_t<\s*\1\s*>\s*,\s*py::array_t<\s*\1\s*>\s*>\s*\{", text)
        if not m:
            raise Unsupported(f"zsteps.cpp: template `{self.func}` with a pair of arrays as result not found")
        T = m.group(1)
        params = []
        for p in m.group(2).split(","):
            pm = re.fullmatch(r"\s*" + T + r"\s+(\w+)\s*", p)
            if not pm:
                raise Unsupported(f"zsteps.cpp: parameter `{p.strip()}` is not `{T} name`")
            params.append(pm.group(1))
        # the function body: up to the matching closing brace
        depth, j = 1, m.end()
        while depth and j < len(text):
            depth += {"{": 1, "}": -1}.get(text[j], 0)
            j += 1
        if depth:
            raise Unsupported("zsteps.cpp: unbalanced braces")
        body = text[m.end():j - 1]
        w = re.search(r"\bwhile\s*\(([^()]*)\)\s*\{", body)
        if not w or len(re.findall(r"\b(?:while|for|do|if|else|switch|goto|break|continue)\b", body)) != 1:
            raise Unsupported("zsteps.cpp: exactly one `while (a <= b) { … }` and no other control flow is read")
        k = body.index("}", w.end())
        if "{" in body[w.end():k]:
            raise Unsupported("zsteps.cpp: nested block inside the loop")
        pre, loop, post = body[:w.start()], body[w.end():k], body[k + 1:]

        lean = lambda n: self.rename.get(n, n)   # noqa: E731
        names = {p: lean(p) for p in params}
        used = set(names.values())
        if len(used) != len(params) or any(n in pytrans.LEAN_KEYWORDS for n in used):
            raise Unsupported("zsteps.cpp: parameter names clash (use `rename`)")
        lets: list[tuple[str, str]] = []
        vectors: list[str] = []

        def fresh(n):
            b, k2 = lean(n), 0
            while (b if not k2 else f"{b}_{k2}") in used or (b if not k2 else f"{b}_{k2}") in pytrans.LEAN_KEYWORDS:
                k2 += 1
            b = b if not k2 else f"{b}_{k2}"
            used.add(b)
            return b

        def auto(st):
            am = re.fullmatch(r"auto (\w+) = (.+)", st)
            if not am:
                return False
            n, e = am.groups()
            if n in names or n in vectors:
                raise Unsupported(f"zsteps.cpp: `{n}` is defined twice")
            if re.fullmatch(r"std::vector<\s*" + T + r"\s*>\(\)", e):
                vectors.append(n)
                return True
            ln = fresh(n)
            lets.append((ln, _Expr(e, names).parse()))
            names[n] = ln
            return True
        for st in _stmts(pre):
            if not auto(st):
                raise Unsupported(f"zsteps.cpp: statement `{st}` before the loop is not `auto name = expr`")
        if len(vectors) != 2:
            raise Unsupported(f"zsteps.cpp: expected two output vectors, found {vectors}")
        cm = re.fullmatch(r"\s*(.+?)\s*(<=|>=|<|>)\s*(.+?)\s*", w.group(1))
        if not cm:
            raise Unsupported(f"zsteps.cpp: loop test `{w.group(1)}` is not one comparison")
        a, o, b = _Expr(cm.group(1), names).parse(), cm.group(2), _Expr(cm.group(3), names).parse()
        cond = {"<=": f"(Scalar.leb {a} {b})", "<": f"(Scalar.ltb {a} {b})", ">=": f"(Scalar.leb {b} {a})", ">": f"(Scalar.ltb {b} {a})"}[o]
        pushes: dict[str, str] = {}
        update = None
        sts = _stmts(loop)
        for idx, st in enumerate(sts):
            if auto(st):
                if update is not None:
                    raise Unsupported("zsteps.cpp: a definition after the state update")
                continue
            pm = re.fullmatch(r"(\w+)\.push_back\((.+)\)", st)
            if pm and pm.group(1) in vectors:
                if pm.group(1) in pushes or update is not None:
                    raise Unsupported(f"zsteps.cpp: `{pm.group(1)}` is pushed twice per iteration / after the update")
                pushes[pm.group(1)] = _Expr(pm.group(2), names).parse()
                continue
            um = re.fullmatch(r"(\w+) \+= (.+)", st)
            if um and um.group(1) in params and update is None and idx == len(sts) - 1:
                update = (um.group(1), f"({names[um.group(1)]} + {_Expr(um.group(2), names).parse()})")
                continue
            raise Unsupported(f"zsteps.cpp: statement `{st}` in the loop is not a definition, a push_back or the final `param += expr`")
        if set(pushes) != set(vectors) or update is None:
            raise Unsupported("zsteps.cpp: every iteration must push once to each vector and end with `param += expr`")
        # the copies into the returned arrays and the order of the returned pair
        copied = {}
        for v in vectors:
            pm = re.search(r"auto (\w+)\s*=\s*py::array_t<\s*" + T + r"\s*>\(\s*" + v + r"\.size\(\)\s*\)\s*;\s*auto (\w+)\s*=\s*\1\.request\(\)\s*;\s*"
                           r"auto (\w+)\s*=\s*\2\.ptr\s*;\s*std::memcpy\(\s*\3\s*,\s*" + v + r"\.data\(\)\s*,\s*" + v + r"\.size\(\)\s*\*\s*sizeof\(\s*" + T + r"\s*\)\s*\)\s*;", post)
            if not pm:
                raise Unsupported(f"zsteps.cpp: the copy of `{v}` into a numpy array is not in the expected form")
            copied[pm.group(1)] = v
        rm = re.search(r"return\s*\{\s*(\w+)\s*,\s*(\w+)\s*\}\s*;\s*$", post.strip())
        if not rm or set(rm.groups()) != set(copied):
            raise Unsupported("zsteps.cpp: `return { py_a, py_b };` of the two copied arrays expected")
        order = [copied[rm.group(1)], copied[rm.group(2)]]
        # the fields are named by the POSITION in the returned pair (Python unpacks `zsave, delzs = cppzsteps(...)` by position)
        ret = {"cond": SymB(cond), "ret0_push": Sym(pushes[order[0]]), "ret1_push": Sym(pushes[order[1]]), "state_next": Sym(update[1])}
        seg = raw[raw.index("template"):] if "template" in raw else raw
        sha = hashlib.sha256(" ".join(_strip_comments(seg).split()).encode()).hexdigest()
        line0 = raw[:raw.index(self.func)].count("\n") + 1 if self.func in raw else 1
        res = pytrans.Result(self, [names[p] for p in params], lets, ret, sha, f"{self.relpath}:{line0}")
        res.prelude = False
        res.bools, res.lists, res.has_exports, res.inlined = set(), set(), False, []
        res.what = f"the loop test and the effects of one iteration of the `while` loop of `{self.func}`"
        res.part = (f"C++ (harness/cpptrans.py): loop `while ({' '.join(w.group(1).split())})`, one iteration; returned pair = "
                    f"(ret0, ret1) = ({order[0]}, {order[1]}); state update `{update[0]} += …`")
        return res
