"""Shared machinery of every check: build, audit, driver transport, verdict, evidence.

Runs under /venv/bin/python (the interpreter that has the real nuspacesim installed from /repo).
"""
from __future__ import annotations

import fcntl
import hashlib
import json
import os
import re
import struct
import subprocess
import sys
import time
import traceback
from pathlib import Path

import numpy as np

VERIF = Path(__file__).resolve().parent.parent
LEAN = VERIF / "lean"
REPO = Path(os.environ.get("VERIF_REPO", "/repo"))
# The package is an editable install of /repo; an alternative tree (scratch worktree) is put first on sys.path.
if str(REPO / "src") not in sys.path:
    sys.path.insert(0, str(REPO / "src"))
DRIVER = LEAN / ".lake" / "build" / "bin" / "nssdriver"
ALLOWED_AXIOMS = {"propext", "Classical.choice", "Quot.sound"}
FORBIDDEN = re.compile(
    r"\bsorry\b|\badmit\b|^\s*axiom\s|native_decide|bv_decide|implemented_by|\bunsafe\s|maxHeartbeats\s+0\b"
)

# --------------------------------------------------------------------------- float transport


def f2h(x) -> str:
    return "%016x" % struct.unpack("<Q", struct.pack("<d", float(x)))[0]


def h2f(s: str) -> float:
    return struct.unpack("<d", struct.pack("<Q", int(s, 16)))[0]


def fh(xs) -> str:
    return " ".join(f2h(x) for x in np.asarray(xs, dtype=np.float64).ravel())


def ulp_neighbours(x: float, n: int = 1):
    out = []
    a = np.float64(x)
    lo = hi = a
    for _ in range(n):
        lo = np.nextafter(lo, -np.inf)
        hi = np.nextafter(hi, np.inf)
        out += [float(lo), float(hi)]
    return out


def close(a, b, rtol=1e-9, atol=1e-12) -> bool:
    a = float(a)
    b = float(b)
    if np.isnan(a) or np.isnan(b):
        return bool(np.isnan(a) and np.isnan(b))
    if np.isinf(a) or np.isinf(b):
        return a == b
    return abs(a - b) <= rtol * max(abs(a), abs(b)) + atol


class _PersistentDriver:
    """One long-lived driver process per harness process (start-up decodes the generated tables: ~0.25 s)."""

    def __init__(self):
        self.p = None
        self.lock = __import__("threading").Lock()

    def start(self):
        self.p = subprocess.Popen([str(DRIVER)], stdin=subprocess.PIPE, stdout=subprocess.PIPE, bufsize=0)

    def call(self, lines):
        import threading
        with self.lock:
            if self.p is None or self.p.poll() is not None:
                self.start()
            p = self.p
            data = ("\n".join(lines) + "\n").encode()
            err = []

            def feed():
                try:
                    p.stdin.write(data)
                    p.stdin.flush()
                except Exception as e:  # noqa
                    err.append(e)
            t = threading.Thread(target=feed, daemon=True)
            t.start()
            out = []
            f = p.stdout
            buf = b""
            need = len(lines)
            while len(out) < need:
                chunk = f.read(65536) if need - len(out) > 50 else f.read(4096)
                if not chunk:
                    break
                buf += chunk
                parts = buf.split(b"\n")
                buf = parts.pop()
                out += parts
            t.join()
            if len(out) != need or buf:
                try:
                    p.kill()
                except Exception:  # noqa
                    pass
                self.p = None
                raise InfraError(f"driver answered {len(out)} lines for {need} operations ({err[:1]})")
            return [l.decode().split() for l in out]


_DRIVER = _PersistentDriver()


def run_driver(lines: list[str]) -> list[list[str]]:
    """Send operations to the Lean model driver (native executable), return token lists."""
    if not lines:
        return []
    if any("\n" in l for l in lines):
        raise InfraError("newline inside a driver operation")
    return _DRIVER.call(lines)


def run_driver_once(lines: list[str]) -> list[list[str]]:
    """Same, in a fresh driver process (used by the sharded variant)."""
    if not lines:
        return []
    p = subprocess.run(
        [str(DRIVER)], input=("\n".join(lines) + "\n").encode(), capture_output=True
    )
    if p.returncode != 0:
        raise InfraError(f"driver exited {p.returncode}: {p.stderr.decode()[:500]}")
    out = p.stdout.decode().split("\n")
    if out and out[-1] == "":
        out.pop()
    if len(out) != len(lines):
        raise InfraError(f"driver answered {len(out)} lines for {len(lines)} operations")
    return [l.split() for l in out]


def run_driver_sharded(lines: list[str], shards: int = 16) -> list[list[str]]:
    """Same as run_driver but split over several driver processes (order preserved)."""
    from concurrent.futures import ThreadPoolExecutor

    n = len(lines)
    if n < 64 or shards <= 1:
        return run_driver(lines)
    k = min(shards, n)
    bounds = [n * i // k for i in range(k + 1)]
    with ThreadPoolExecutor(k) as ex:
        parts = list(ex.map(lambda i: run_driver_once(lines[bounds[i] : bounds[i + 1]]), range(k)))
    return [x for p in parts for x in p]


class InfraError(Exception):
    pass


# --------------------------------------------------------------------------- build + audit


def _strip_comments(src: str) -> str:
    # remove /- … -/ (nested not needed in our sources) and -- … comments
    out = []
    i = 0
    depth = 0
    n = len(src)
    while i < n:
        if src.startswith("/-", i):
            depth += 1
            i += 2
        elif depth and src.startswith("-/", i):
            depth -= 1
            i += 2
        elif depth:
            if src[i] == "\n":
                out.append("\n")
            i += 1
        elif src.startswith("--", i):
            j = src.find("\n", i)
            i = n if j < 0 else j
        else:
            out.append(src[i])
            i += 1
    return "".join(out)


def forbidden_tokens() -> list[str]:
    hits = []
    for p in sorted(list((LEAN / "NssVerif").rglob("*.lean")) + list((LEAN / "Driver").rglob("*.lean"))):
        body = _strip_comments(p.read_text())
        for ln, line in enumerate(body.split("\n"), 1):
            if FORBIDDEN.search(line):
                hits.append(f"{p.relative_to(LEAN)}:{ln}: {line.strip()[:120]}")
    return hits


class BuildResult:
    def __init__(self):
        self.ok = True
        self.failed_modules: list[str] = []
        self.failed_theorems: list[str] = []
        self.log = ""
        self.regen: dict = {}
        self.regen_others: dict = {}
        self.wall = 0.0


def theorem_at(path: Path, line: int) -> str:
    """Name of the theorem/def enclosing `line` in a Lean file (for attributing a build error)."""
    name = "?"
    ns = ""
    try:
        for ln, text in enumerate(path.read_text().split("\n"), 1):
            if ln > line:
                break
            m = re.match(r"\s*namespace\s+(\S+)", text)
            if m:
                ns = m.group(1) + "."
            m = re.match(r"\s*(?:private\s+|protected\s+|noncomputable\s+)*(theorem|lemma|def|example|instance)\s+(\S+)?", text)
            if m:
                name = ns + (m.group(2) or "example") if m.group(1) != "example" else ns + f"example@{ln}"
    except OSError:
        pass
    return name


def write_if_changed(path: Path, text: str) -> bool:
    if path.exists() and path.read_text() == text:
        return False
    tmp = path.with_suffix(path.suffix + ".tmp")
    tmp.write_text(text)
    tmp.replace(path)
    return True


def regen_ops_index():
    """Driver/Ops.lean is generated: it concatenates the `ops` list of every Driver/Ops/*.lean."""
    mods = sorted(p.stem for p in (LEAN / "Driver" / "Ops").glob("*.lean"))
    src = "import Driver.Proto\n" + "".join(f"import Driver.Ops.{m}\n" for m in mods)
    src += "\n/-! GENERATED by harness/common.py (regen_ops_index): all driver operations. -/\nnamespace Driver\n"
    src += "def allOps : List (String × Proto.Handler) :=\n  " + " ++ ".join(f"{m}.ops" for m in mods) + "\nend Driver\n"
    write_if_changed(LEAN / "Driver" / "Ops.lean", src)


def regen_all_others(own) -> dict:
    """call the `regen` of every other property module (as harness/regen_all.py does); returns {module: error} for failures"""
    import importlib
    failed = {}
    done = {own}
    pd = VERIF / "harness" / "props"
    if str(pd) not in sys.path:
        sys.path.insert(0, str(pd))
    for p in sorted(pd.glob("C*.py")):
        try:
            mod = sys.modules.get(p.stem) or importlib.import_module(p.stem)
            fn = getattr(mod, "regen", None)
            if fn is None or fn in done or (getattr(fn, "__module__", None) == getattr(own, "__module__", None)):
                continue
            done.add(fn)
            fn()
        except Exception as e:  # noqa
            failed[p.stem] = f"{type(e).__name__}: {str(e)[:160]}"
    return failed


def lake_build(targets: list[str], regen=None, full=False) -> BuildResult:
    """Regenerate Gen/* from /repo, then `lake build` the given targets under a lock."""
    res = BuildResult()
    t0 = time.time()
    lock = open(LEAN / ".verif.lock", "w")
    fcntl.flock(lock, fcntl.LOCK_EX)
    try:
        regen_ops_index()
        regen_error = None
        if full and regen is None:
            res.regen_others = regen_all_others(None)
            regen_ops_index()
        if regen is not None:
            # Every generated module is rewritten from the tree this run checks, not only this property's own: property
            # modules import each other (C07 builds C18, which imports C04 …), and a run against another tree may have left
            # its generated files behind.  A failure of ANOTHER property's regeneration leaves that property's last good
            # files in place and is only noted; a failure of this property's own regeneration is a broken tie.
            res.regen_others = regen_all_others(regen)
            try:
                res.regen = regen()
            except Exception as e:  # noqa
                # the translator could not turn what /repo contains now into the model's data (changed shape, missing
                # file …): the tie is broken, which is not by itself a violation — the check goes on with the data modules
                # of the last successful regeneration and searches for a failing input
                regen_error = f"{type(e).__name__}: {str(e)[:300]}"
            regen_ops_index()   # the regeneration may have written new Driver/Ops/Src*.lean
        p = subprocess.run(
            ["lake", "build", *targets], cwd=LEAN, capture_output=True, text=True
        )
        res.log = p.stdout + p.stderr
        if p.returncode != 0:
            res.ok = False
            for m in re.finditer(r"^error: (\S+\.lean):(\d+):\d+:", res.log, re.M):
                f = LEAN / m.group(1)
                mod = m.group(1)[:-5].replace("/", ".")
                if mod not in res.failed_modules:
                    res.failed_modules.append(mod)
                th = theorem_at(f, int(m.group(2)))
                if th not in res.failed_theorems:
                    res.failed_theorems.append(th)
            if not res.failed_modules:
                res.failed_modules.append("?")
        if regen_error is not None:
            res.ok = False
            res.failed_modules.append("NssVerif.Gen.(regeneration)")
            res.failed_theorems.append("regeneration of the Gen data modules from /repo: " + regen_error)
            res.log += "\nregeneration failed: " + regen_error
    finally:
        fcntl.flock(lock, fcntl.LOCK_UN)
        lock.close()
    res.wall = time.time() - t0
    return res


def property_theorems(prop: str) -> list[str]:
    """Names of the theorems declared in Props/<prop>.lean (fully qualified)."""
    p = LEAN / "NssVerif" / "Props" / f"{prop}.lean"
    body = _strip_comments(p.read_text())
    names = []
    ns: list[str] = []
    for line in body.split("\n"):
        m = re.match(r"\s*namespace\s+(\S+)", line)
        if m:
            ns.append(m.group(1))
            continue
        m = re.match(r"\s*end\s+(\S+)", line)
        if m and ns and ns[-1] == m.group(1):
            ns.pop()
            continue
        m = re.match(r"\s*(?:private\s+|protected\s+)?theorem\s+([^\s:({\[]+)", line)
        if m:
            names.append(".".join(ns + [m.group(1)]))
    return names


def audit(prop: str, extra_imports=(), extra_theorems=()) -> dict:
    """`#print axioms` of every theorem of Props/<prop>.lean (and of the theorems of other property files this property
    relies on, `extra_theorems`); returns name -> axiom list."""
    names = property_theorems(prop) + list(extra_theorems)
    d = LEAN / ".audit"
    d.mkdir(exist_ok=True)
    src = f"import NssVerif.Props.{prop}\n" + "".join(f"import {m}\n" for m in extra_imports) + "".join(f"#print axioms {n}\n" for n in names)
    f = d / f"Audit{prop}.lean"
    f.write_text(src)
    p = subprocess.run(["lake", "env", "lean", str(f)], cwd=LEAN, capture_output=True, text=True)
    out = p.stdout + p.stderr
    res: dict[str, list[str] | None] = {n: None for n in names}
    for m in re.finditer(r"'([^']+)' depends on axioms: \[([^\]]*)\]", out, re.S):
        res[m.group(1)] = [a.strip() for a in m.group(2).replace("\n", " ").split(",") if a.strip()]
    for m in re.finditer(r"'([^']+)' does not depend on any axioms", out):
        res[m.group(1)] = []
    return {"names": names, "axioms": res, "raw_errors": [l for l in out.split("\n") if "error" in l][:10]}


# --------------------------------------------------------------------------- verdict context


class quiet_stdout:
    """Redirect file descriptor 1 to /dev/null while the real code runs (progress bars, warnings printed by the
    simulator); the check's own result lines are printed after the redirect is undone."""

    def __enter__(self):
        sys.stdout.flush()
        self.saved = os.dup(1)
        self.null = os.open(os.devnull, os.O_WRONLY)
        os.dup2(self.null, 1)
        return self

    def __exit__(self, *a):
        sys.stdout.flush()
        os.dup2(self.saved, 1)
        os.close(self.saved)
        os.close(self.null)


class Ctx:
    """Counters, disagreements and violations of one run of one check."""

    def __init__(self, prop: str, tier: str, seed: int):
        self.prop = prop
        self.tier = tier
        self.seed = seed
        self.rng = np.random.Generator(np.random.PCG64(seed))
        self.evaluations = 0
        self.nontrivial: set = set()
        self.samples: list = []
        self.dist: dict[str, int] = {}
        self.disagreements: list[dict] = []  # model vs code (functional) — drift, not by itself a violation
        self.violations: list[dict] = []  # property-level failures on the REAL code, with the input
        self.near_boundary_skipped = 0
        self.traces = 0
        self.notes: list[str] = []
        self.assumptions: list[str] = []
        self.extra: dict = {}

    @property
    def thorough(self) -> bool:
        return self.tier == "thorough"

    def count(self, key: str, n: int = 1):
        self.dist[key] = self.dist.get(key, 0) + n

    def case(self, key=None, sample=None, n: int = 1):
        """Register evaluated case(s); `key` (hashable) identifies a distinct non-trivial case."""
        self.evaluations += n
        if key is not None:
            self.nontrivial.add(key)
        if sample is not None and len(self.samples) < 6:
            self.samples.append(sample)

    def disagree(self, what: str, case: dict):
        if len(self.disagreements) < 50:
            self.disagreements.append({"what": what, "case": case})
        self.count("disagreements")

    def violation(self, site: str, cls: str, what: str, case: dict):
        """A failure of the property itself on the real code, with the concrete input."""
        self.count("violations_raw")
        for v in self.violations:
            if v["site"] == site and v["class"] == cls:
                v["count"] += 1
                return
        self.violations.append({"site": site, "class": cls, "what": what, "case": case, "count": 1})


def load_known() -> list[dict]:
    p = VERIF / "known_findings.json"
    if not p.exists():
        return []
    return json.loads(p.read_text()).get("findings", [])


def jsonable(o):
    if isinstance(o, dict):
        return {str(k): jsonable(v) for k, v in o.items()}
    if isinstance(o, (list, tuple, set)):
        return [jsonable(v) for v in o]
    if isinstance(o, (np.floating,)):
        return jsonable(float(o))
    if isinstance(o, (np.integer,)):
        return int(o)
    if isinstance(o, (np.bool_,)):
        return bool(o)
    if isinstance(o, np.ndarray):
        return jsonable(o.tolist())
    if isinstance(o, float):
        if o != o:
            return "nan"
        if o in (float("inf"), float("-inf")):
            return "inf" if o > 0 else "-inf"
        return o
    if isinstance(o, (str, int, bool)) or o is None:
        return o
    return repr(o)


TRUSTED_BASE = [
    "Lean 4.33.0 kernel (thorough tier additionally re-checks the property modules with leanchecker)",
    "axioms allowed in property theorems: propext, Classical.choice, Quot.sound (audited with #print axioms every run); no native_decide, bv_decide, sorry or user axioms (grep every run)",
    "the hand-written polymorphic Lean model (lean/NssVerif/Model) is tied to /repo by this run's correspondence: the same model at Float (native driver) and the real Python code on the same inputs",
    "Gen/*.lean regenerated from /repo's data files and constants by harness/extract.py on this run",
    "where the property has a source tie (harness/srcspecs/<id>.py): Gen/Src/<id>.lean regenerated from the Python source of /repo by the translator harness/pytrans.py on this run and proved equal to the model (theorems src_*); trusted there: the translator's reading of numpy (the semantics listed in its docstring: elementwise operators, x**2 = x*x, np.clip/np.minimum/np.maximum on non-NaN operands, Boolean-mask stores as where, % as floored modulus, idealised pi/linspace, opaque inputs for table look-ups and random draws), validated on this run by executing the translated definitions at Float next to the real functions (coverage.source_tie)",
    "for source that is not arithmetic (the batch pipeline of CphotAng.__call__: harness/calltrans.py; the Boolean / index-array bracketing of vec_1d_interp and its two shift helpers: harness/masktrans.py; and the other statement-by-statement readers listed in the property's MANIFEST text) the Gen/Src modules are written by strict recognisers of the statement forms found in the pinned source: each recognised statement is mapped to the model primitive named in the reader's docstring (trusted), anything unrecognised fails the regeneration (reported as a broken tie), and the reader's account is cross-checked against the running code on this run",
    "modelled, not verified: IEEE rounding (theorems are over the reals / ordered fields), numpy/scipy/dask/astropy internals (modelled by contract), libm vs numpy SIMD transcendental functions (absorbed by the stated tolerances)",
]


def main_for(prop: str, module, argv=None):
    """Entry point shared by all checks: ./check <prop> quick|thorough  |  --replay <file>."""
    argv = list(sys.argv[1:] if argv is None else argv)
    tier = os.environ.get("VERIF_TIER", "quick")
    replay = None
    while argv:
        a = argv.pop(0)
        if a in ("quick", "thorough"):
            tier = a
        elif a == "--replay":
            replay = argv.pop(0)
    seed = int(os.environ.get("VERIF_SEED", "20260926"))
    t0 = time.time()
    ctx = Ctx(prop, tier, seed)
    ev_path = VERIF / "evidence" / f"{prop}.json"
    if REPO != Path("/repo"):          # a run against a scratch tree (seeded change) must not overwrite the evidence
        ev_path = VERIF / "replay" / f"evidence-{prop}-alt.json"
    try:
        if replay is not None:
            return _replay(prop, module, json.loads(Path(replay).read_text()))
        return _run(prop, module, ctx, t0, ev_path)
    except InfraError as e:
        print(f"INFRA-ERROR property={prop}: {e}")
        return 2
    except Exception:
        traceback.print_exc()
        print(f"INFRA-ERROR property={prop}: unexpected exception in the harness")
        return 2


def _replay(prop, module, data: dict) -> int:
    """Deterministic replay: re-run the recorded seed/tier against the real code and report whether the recorded
    violation classes recur (exit 1) or not (exit 0)."""
    if hasattr(module, "replay"):
        return module.replay(data)
    ctx = Ctx(prop, data.get("tier", "quick"), int(data.get("seed", 0)))
    ctx.driver_ok = DRIVER.exists()
    with quiet_stdout():
        module.run(ctx)
    want = {(v["site"], v["class"]) for v in data.get("violations", [])}
    got = {(v["site"], v["class"]) for v in ctx.violations}
    for v in ctx.violations:
        if (v["site"], v["class"]) in want or not want:
            print(f"REPRODUCED [{v['site']} / {v['class']}]: {v['what']} :: {json.dumps(jsonable(v['case']))[:400]}")
    if want & got or (not want and (got or ctx.disagreements)):
        return 1
    print("not reproduced on the current tree")
    return 0


def _run(prop, module, ctx: Ctx, t0, ev_path: Path) -> int:
    extra_targets = list(getattr(module, "EXTRA_TARGETS", []))
    targets = [f"NssVerif.Props.{prop}", *extra_targets, "nssdriver"]
    regen = getattr(module, "regen", None)
    br = lake_build(targets, regen, full=True)
    broken: list[str] = []  # names of theorems / correspondences that no longer check
    driver_ok = True
    if not br.ok:
        # Which part failed?  A failure in Props/<prop> or a Gen-dependent data theorem is a broken proof obligation;
        # anything else is infrastructure.
        relevant = [m for m in br.failed_modules if ".Props." in m or ".Gen." in m or ".Data." in m or ".Model." in m or ".Lemmas." in m]
        if not relevant:
            print(br.log[-3000:])
            raise InfraError("lake build failed outside the model/proof modules")
        broken += [f"theorem {t}" for t in br.failed_theorems] or [f"module {m}" for m in br.failed_modules]
        # try to get at least the driver
        b2 = lake_build(["nssdriver"])
        driver_ok = b2.ok and DRIVER.exists()
        print(f"proof obligation(s) no longer check: {broken}")
        print(br.log[-1500:])
    forb = forbidden_tokens()
    if forb:
        raise InfraError("forbidden tokens in Lean sources: " + "; ".join(forb[:5]))
    aud = {"names": [], "axioms": {}}
    if br.ok:
        aud = audit(prop, extra_targets, getattr(module, "EXTRA_THEOREMS", []))
        bad = {n: a for n, a in aud["axioms"].items() if a is None or not set(a) <= ALLOWED_AXIOMS}
        if bad:
            raise InfraError(f"axiom audit failed: {bad} {aud['raw_errors']}")
    # thorough: independent re-check of the property module
    leanchecker = None
    if ctx.thorough and br.ok:
        p = subprocess.run(["lake", "env", "leanchecker", f"NssVerif.Props.{prop}"], cwd=LEAN, capture_output=True, text=True)
        leanchecker = p.returncode
        if p.returncode != 0:
            raise InfraError("leanchecker rejected the property module: " + (p.stdout + p.stderr)[-500:])
    ctx.driver_ok = driver_ok
    # corpus first, then correspondence + oracle on the real code
    try:
        with quiet_stdout():
            module.run(ctx)
    except InfraError:
        raise
    except Exception as ex:  # noqa
        # An exception that comes out of (or through) the code under test while the harness drives it means the code no
        # longer behaves like the modelled code (changed signature, new failure): the correspondence is broken. That is
        # not by itself a violation; the failing-input search below decides. Exceptions entirely inside the harness are
        # infrastructure errors.
        tb = traceback.extract_tb(ex.__traceback__)
        in_code = any(str(REPO) in (fr.filename or "") or "/nuspacesim/" in (fr.filename or "") for fr in tb)
        if not in_code and not isinstance(ex, (TypeError, AttributeError, ImportError)):
            if not ctx.violations:
                raise
            # the property was already seen to fail on the real code for a concrete input: report that; a later stream of the
            # harness that cannot cope with what the failing code hands it does not take the finding away
            ctx.notes.append("a later stream of the harness raised after a violation had been recorded: " + "".join(traceback.format_exception_only(type(ex), ex)).strip()[:200])
        ctx.disagree(f"{prop}.harness-call-into-code-raised:{type(ex).__name__}",
                     {"error": str(ex)[:300], "where": [f"{Path(fr.filename).name}:{fr.lineno}" for fr in tb[-4:]]})
        ctx.notes.append("the run was cut short by an exception raised through the code under test: " + "".join(traceback.format_exception_only(type(ex), ex)).strip()[:300])
    if ctx.disagreements:
        names = sorted({d["what"] for d in ctx.disagreements})
        broken += [f"correspondence {n}" for n in names]
    if (broken or ctx.disagreements) and not ctx.violations and hasattr(module, "search"):
        # failing-input search on the real code
        try:
            with quiet_stdout():
                module.search(ctx)
        except InfraError:
            raise
        except Exception as ex:  # noqa
            ctx.notes.append("failing-input search cut short: " + "".join(traceback.format_exception_only(type(ex), ex)).strip()[:300])
    # ---- verdict
    known = [k for k in load_known() if k.get("property") == prop and k.get("status") == "known"]
    reported = []
    known_hit = []
    for v in ctx.violations:
        hit = next((k for k in known if k["site"] == v["site"] and k["class"] == v["class"]), None)
        if hit:
            known_hit.append((hit, v))
        else:
            reported.append(v)
    for k, v in known_hit:
        print(f"KNOWN-FINDING: property={prop} {k['what']} [{v['site']} / {v['class']}; {v['count']} case(s) this run]")
    rc = 0
    rdir = VERIF / "replay"
    rdir.mkdir(exist_ok=True)
    if reported:
        rp = rdir / f"{prop}-{ctx.seed}.json"
        rp.write_text(json.dumps(jsonable({
            "property": prop, "seed": ctx.seed, "tier": ctx.tier, "violations": reported,
            "broken": broken, "rerun": f"./check {prop} --replay {rp}"}), indent=1))
        for v in reported[:3]:
            print(f"  failing input [{v['site']} / {v['class']}]: {v['what']}")
        print(f"VIOLATION property={prop} replay={rp}")
        rc = 1
    elif broken:
        rp = rdir / f"{prop}-{ctx.seed}.json"
        rp.write_text(json.dumps(jsonable({
            "property": prop, "seed": ctx.seed, "tier": ctx.tier, "violations": [],
            "no_longer_checks": broken, "disagreements": ctx.disagreements[:10],
            "build_log_tail": br.log[-2000:] if not br.ok else ""}), indent=1))
        print(f"VIOLATION property={prop} replay={rp} no-failing-input-found")
        rc = 1
    # ---- evidence
    n_obl = len(aud["names"])
    n_dis = sum(1 for n in aud["names"] if aud["axioms"].get(n) is not None and set(aud["axioms"][n]) <= ALLOWED_AXIOMS)
    cov = {
        "obligations": n_obl,
        "discharged": n_dis,
        "checker_cmd": f"cd lean && lake build NssVerif.Props.{prop} && lake env lean .audit/Audit{prop}.lean  (#print axioms of every theorem)" + ("; lake env leanchecker NssVerif.Props." + prop if leanchecker == 0 else ""),
        "trusted_base": TRUSTED_BASE + getattr(module, "TRUSTED_EXTRA", []),
        "theorems": aud["names"],
        "axioms_used": sorted({a for v in aud["axioms"].values() if v for a in v}),
        "evaluations": ctx.evaluations,
        "distinct_nontrivial": len(ctx.nontrivial),
        "rule": getattr(module, "RULE", ""),
        "samples": ctx.samples or [{"note": "no correspondence case was run"}],
        "traces_validated_against_impl": ctx.traces,
        "input_distribution": ctx.dist,
        "near_boundary_skipped": ctx.near_boundary_skipped,
        "disagreements": len(ctx.disagreements),
        "known_findings_seen": [k["id"] for k, _ in known_hit],
        "build_s": round(br.wall, 2),
        "regenerated": br.regen,
        "regeneration_of_other_properties_failed": br.regen_others,
        "leanchecker": leanchecker,
        "notes": ctx.notes,
        **ctx.extra,
    }
    ev = {
        "property_id": prop,
        "tier": ctx.tier,
        "seed": ctx.seed,
        "level": "proof",
        "coverage": cov,
        "assumptions": getattr(module, "ASSUMPTIONS", []) + ctx.assumptions,
        "wall_s": round(time.time() - t0, 2),
        "violations": len(reported) + (1 if (broken and not reported) else 0),
    }
    ev_path.parent.mkdir(exist_ok=True)
    ev_path.write_text(json.dumps(jsonable(ev), indent=1))
    if rc == 0:
        print(f"OK property={prop} tier={ctx.tier} seed={ctx.seed} theorems={n_dis}/{n_obl} cases={ctx.evaluations} "
              f"nontrivial={len(ctx.nontrivial)} wall={ev['wall_s']}s")
    return rc
