"""Refresh the seeded-change table of DESIGN.md §8.5 from /verif/seeded/*/meta.json."""
import re
import subprocess
from pathlib import Path

V = Path(__file__).resolve().parent.parent
tab = subprocess.run(["python3", str(V / "harness" / "seedtable.py")], capture_output=True, text=True).stdout.strip()
p = V / "DESIGN.md"
s = p.read_text()
begin, end = "<!-- SEEDTABLE-BEGIN -->", "<!-- SEEDTABLE-END -->"
block = f"{begin}\n{tab}\n{end}"
if begin in s:
    s = re.sub(re.escape(begin) + r".*?" + re.escape(end), lambda m: block, s, flags=re.S)
else:
    s = s.replace("SEEDTABLE", block, 1)
p.write_text(s)
