"""Source tie for the bracketing of `vec_1d_interp` (utils/interp.py): the Boolean / index-array half of the function,
which the arithmetic translator (pytrans) leaves out, is read statement by statement and regenerated as
`lean/NssVerif/Gen/Src/C18Mask.lean`.

What is recognised (anything else raises `Unsupported`: the regeneration fails = broken tie; never a guess):

* `left_shift` / `right_shift`: `result = np.empty_like(arr)` followed by exactly two slice stores along the last axis, one
  filling `k` columns at one end with `True`, the other copying `arr` shifted by `k` columns into the rest, `return result`.
  A store `result[:, a:b] = v` is read with numpy's slice semantics for a row of length n (negative bounds count from the
  end); the two stores must cover every column exactly once for every n ≥ k.  The row function is emitted from the stores:
  `true`-block and the copied window `(arr.drop s).take (n - k)`.
* `vec_1d_interp`: the statements
      M = xs <cmp> x[:, None]         (cmp one of >=, >, <, <=)
      S = left_shift(M) | right_shift(M)
      X = np.logical_xor(M, S)
      I = np.where(X)[1]
  twice (upper and lower bracket), then the four selections `y0 = ys[I_lo]`, `x0 = xs[X_lo]`, `y1 = ys[I_hi]`, `x1 = xs[X_hi]`
  (index list into the ordinates, mask into the abscissae), then the two-point formula (translated by pytrans, not here) and
  `return y`.
  Emitted per row: the two masks, and the batch function `vecInterp` = flat index lists (`np.where(...)[1]`, row-major), masked
  abscissae in row-major order, the two-point formula of `Gen.Src.C18.vec1dInterp` row by row.

`Props/C18.lean` proves that the regenerated masks and the regenerated batch function are the model's (`Model.Interp`),
about which the bracketing theorems (unique bracket on every non-decreasing row, plateaux included) are proved.
"""
from __future__ import annotations

import ast
import hashlib
from pathlib import Path

from common import LEAN, REPO, write_if_changed

REL = "src/nuspacesim/utils/interp.py"


class Unsupported(Exception):
    pass


def _need(cond, what, node=None):
    if not cond:
        where = f" (line {node.lineno})" if node is not None and hasattr(node, "lineno") else ""
        raise Unsupported(f"utils/interp.py: {what}{where}")


def _name(n, what):
    _need(isinstance(n, ast.Name), f"{what}: a plain name expected", n)
    return n.id


def _int(n, what):
    """integer literal, possibly negated; None for an omitted bound"""
    if n is None:
        return None
    if isinstance(n, ast.UnaryOp) and isinstance(n.op, ast.USub) and isinstance(n.operand, ast.Constant) and type(n.operand.value) is int:
        return -n.operand.value
    _need(isinstance(n, ast.Constant) and type(n.value) is int, f"{what}: integer literal expected", n)
    return n.value


def _last_axis_slice(sub, what):
    """`name[:, a:b]` -> (name, a, b)"""
    _need(isinstance(sub, ast.Subscript) and isinstance(sub.slice, ast.Tuple) and len(sub.slice.elts) == 2, f"{what}: name[:, a:b] expected", sub)
    r, c = sub.slice.elts
    _need(isinstance(r, ast.Slice) and r.lower is None and r.upper is None and r.step is None, f"{what}: the row index must be `:`", sub)
    _need(isinstance(c, ast.Slice) and c.step is None, f"{what}: a column slice without step expected", sub)
    return _name(sub.value, what), _int(c.lower, what), _int(c.upper, what)


def _cols(a, b, n):
    """numpy slice a:b on a row of length n -> range"""
    lo = 0 if a is None else (a + n if a < 0 else a)
    hi = n if b is None else (b + n if b < 0 else b)
    lo, hi = max(0, min(n, lo)), max(0, min(n, hi))
    return range(lo, max(lo, hi))


def read_shift(fn: ast.FunctionDef) -> dict:
    what = fn.name
    _need(len(fn.args.args) == 1 and not fn.args.vararg and not fn.args.kwarg and not fn.decorator_list, f"{what}: one plain parameter expected", fn)
    arr = fn.args.args[0].arg
    body = [s for s in fn.body if not (isinstance(s, ast.Expr) and isinstance(s.value, ast.Constant))]
    _need(len(body) == 4, f"{what}: four statements expected", fn)
    s0, s1, s2, s3 = body
    _need(isinstance(s0, ast.Assign) and len(s0.targets) == 1 and isinstance(s0.value, ast.Call) and ast.unparse(s0.value.func) == "np.empty_like"
          and len(s0.value.args) == 1 and not s0.value.keywords and _name(s0.value.args[0], what) == arr, f"{what}: result = np.empty_like({arr}) expected", s0)
    res = _name(s0.targets[0], what)
    _need(isinstance(s3, ast.Return) and _name(s3.value, what) == res, f"{what}: return {res} expected", s3)
    fill = copy = None
    for s in (s1, s2):
        _need(isinstance(s, ast.Assign) and len(s.targets) == 1, f"{what}: slice store expected", s)
        tgt, a, b = _last_axis_slice(s.targets[0], what)
        _need(tgt == res, f"{what}: store into {res} expected", s)
        if isinstance(s.value, ast.Constant):
            _need(s.value.value is True and fill is None, f"{what}: exactly one store of the literal True expected", s)
            fill = (a, b)
        else:
            src, c, d = _last_axis_slice(s.value, what)
            _need(src == arr and copy is None, f"{what}: exactly one store copying {arr}[:, c:d] expected", s)
            copy = ((a, b), (c, d))
    _need(fill is not None and copy is not None, f"{what}: one True store and one copy store expected", fn)
    # the shape of the row function, established on concrete row lengths with numpy's slice rules
    shape = None
    for n in range(1, 9):
        f = list(_cols(*fill, n))
        t = list(_cols(*copy[0], n))
        s = list(_cols(*copy[1], n))
        k = len(f)
        if n < 3 and (sorted(f + t) != list(range(n)) or len(t) != len(s)):
            continue     # rows shorter than the shift: not the regime the function is written for
        _need(sorted(f + t) == list(range(n)) and len(t) == len(s), f"{what}: the two stores do not cover a row of length {n} exactly once", fn)
        if f == list(range(n - k, n)) and t == list(range(0, n - k)):
            kind = "true_at_end"
        elif f == list(range(0, k)) and t == list(range(k, n)):
            kind = "true_at_start"
        else:
            raise Unsupported(f"utils/interp.py: {what}: stores of an unknown shape for a row of length {n}")
        if not s:
            continue     # nothing copied for this length: says nothing about where the copied window starts
        _need(s == list(range(s[0], s[0] + n - k)), f"{what}: copied window is not contiguous", fn)
        sh = (kind, k, s[0])
        _need(shape is None or shape == sh, f"{what}: the shape of the stores depends on the row length", fn)
        shape = sh
    _need(shape is not None, f"{what}: no row length for which the stores are defined", fn)
    return {"name": fn.name, "kind": shape[0], "k": shape[1], "src_start": shape[2], "where": f"{REL}:{fn.lineno}-{fn.end_lineno}"}


CMP = {ast.GtE: "ge", ast.Gt: "gt", ast.Lt: "lt", ast.LtE: "le"}


def read_vec(fn: ast.FunctionDef, shifts: dict) -> dict:
    what = "vec_1d_interp"
    ps = [a.arg for a in fn.args.args]
    _need(len(ps) == 3 and not fn.decorator_list, f"{what}: three parameters expected", fn)
    xs, ys, x = ps
    body = [s for s in fn.body if not (isinstance(s, ast.Expr) and isinstance(s.value, ast.Constant))]
    _need(len(body) == 14, f"{what}: {len(body)} statements where 14 are expected", fn)

    def assign(s):
        _need(isinstance(s, ast.Assign) and len(s.targets) == 1, f"{what}: plain assignment expected", s)
        return _name(s.targets[0], what), s.value

    def bracket(stmts):
        (m, v0), (sname, v1), (xm, v2), (idx, v3) = [assign(s) for s in stmts]
        _need(isinstance(v0, ast.Compare) and len(v0.ops) == 1 and type(v0.ops[0]) in CMP and _name(v0.left, what) == xs, f"{what}: {xs} <cmp> {x}[:, None] expected", v0)
        r = v0.comparators[0]
        _need(isinstance(r, ast.Subscript) and _name(r.value, what) == x and ast.dump(r.slice) == "Tuple(elts=[Slice(), Constant(value=None)], ctx=Load())",
              f"{what}: {x}[:, None] expected", v0)
        _need(isinstance(v1, ast.Call) and isinstance(v1.func, ast.Name) and v1.func.id in shifts and len(v1.args) == 1 and not v1.keywords
              and _name(v1.args[0], what) == m, f"{what}: a shift of {m} expected", v1)
        _need(isinstance(v2, ast.Call) and ast.unparse(v2.func) == "np.logical_xor" and len(v2.args) == 2 and not v2.keywords
              and {_name(v2.args[0], what), _name(v2.args[1], what)} == {m, sname}, f"{what}: np.logical_xor({m}, {sname}) expected", v2)
        _need(isinstance(v3, ast.Subscript) and isinstance(v3.slice, ast.Constant) and v3.slice.value == 1 and isinstance(v3.value, ast.Call)
              and ast.unparse(v3.value.func) == "np.where" and len(v3.value.args) == 1 and not v3.value.keywords
              and _name(v3.value.args[0], what) == xm, f"{what}: np.where({xm})[1] expected", v3)
        return {"cmp": CMP[type(v0.ops[0])], "shift": v1.func.id, "mask": xm, "index": idx}

    b1, b2 = bracket(body[0:4]), bracket(body[4:8])
    sel = {}
    for s in body[8:12]:
        t, v = assign(s)
        _need(isinstance(v, ast.Subscript) and isinstance(v.slice, ast.Name), f"{what}: selection name[name] expected", s)
        sel[t] = (_name(v.value, what), v.slice.id)
    by_mask = {b1["mask"]: "first", b2["mask"]: "second", b1["index"]: "first", b2["index"]: "second"}
    t13, v13 = assign(body[12])
    _need(isinstance(body[13], ast.Return) and _name(body[13].value, what) == t13, f"{what}: return {t13} expected", body[13])
    # the formula names its operands: y = Y0 + (x - X0) * ((Y1 - Y0) / (X1 - X0)); read which selection plays which role
    f = v13
    _need(isinstance(f, ast.BinOp) and isinstance(f.op, ast.Add) and isinstance(f.right, ast.BinOp) and isinstance(f.right.op, ast.Mult),
          f"{what}: two-point formula of an unknown shape", body[12])
    Y0 = _name(f.left, what)
    dx, slope = f.right.left, f.right.right
    _need(isinstance(dx, ast.BinOp) and isinstance(dx.op, ast.Sub) and _name(dx.left, what) == x, f"{what}: ({x} - x0) expected", body[12])
    X0 = _name(dx.right, what)
    _need(isinstance(slope, ast.BinOp) and isinstance(slope.op, ast.Div) and isinstance(slope.left, ast.BinOp) and isinstance(slope.left.op, ast.Sub)
          and isinstance(slope.right, ast.BinOp) and isinstance(slope.right.op, ast.Sub), f"{what}: (y1 - y0) / (x1 - x0) expected", body[12])
    Y1 = _name(slope.left.left, what)
    X1 = _name(slope.right.left, what)
    _need(_name(slope.left.right, what) == Y0 and _name(slope.right.right, what) == X0, f"{what}: the slope does not use the same node as the offset", body[12])
    _need({Y0, X0, Y1, X1} == set(sel), f"{what}: the formula uses other names than the four selections", body[12])
    roles = {}
    for role, nm, want_arr, kind in (("y0", Y0, ys, "index"), ("x0", X0, xs, "mask"), ("y1", Y1, ys, "index"), ("x1", X1, xs, "mask")):
        arr, key = sel[nm]
        _need(arr == want_arr, f"{what}: {nm} must be selected from {want_arr}", fn)
        br = b1 if key in (b1["mask"], b1["index"]) else b2 if key in (b2["mask"], b2["index"]) else None
        _need(br is not None, f"{what}: {nm} is selected by an unknown key {key}", fn)
        _need(key == br[kind], f"{what}: {nm} must be selected by the {'index list' if kind == 'index' else 'mask'} of its bracket", fn)
        roles[role] = "first" if br is b1 else "second"
    _need(roles["y0"] == roles["x0"] and roles["y1"] == roles["x1"] and roles["y0"] != roles["y1"], f"{what}: the two nodes must come from the two different brackets", fn)
    return {"first": b1, "second": b2, "node0": roles["y0"], "node1": roles["y1"], "where": f"{REL}:{fn.lineno}-{fn.end_lineno}"}


def read(repo: Path = REPO) -> dict:
    src = (Path(repo) / REL).read_text()
    tree = ast.parse(src)
    fns = {n.name: n for n in tree.body if isinstance(n, ast.FunctionDef)}
    _need({"left_shift", "right_shift", "vec_1d_interp"} <= set(fns), "left_shift / right_shift / vec_1d_interp not found")
    shifts = {n: read_shift(fns[n]) for n in ("left_shift", "right_shift")}
    vec = read_vec(fns["vec_1d_interp"], shifts)
    sha = hashlib.sha256("".join(ast.dump(fns[n]) for n in ("left_shift", "right_shift", "vec_1d_interp")).encode()).hexdigest()
    return {"shifts": shifts, "vec": vec, "ast_sha256": sha}


def _shift_def(lean_name: str, d: dict) -> str:
    k, s = d["k"], d["src_start"]
    window = f"((m.drop {s}).take (m.length - {k}))"
    body = f"{window} ++ List.replicate {k} true" if d["kind"] == "true_at_end" else f"List.replicate {k} true ++ {window}"
    return (f"/-- `{d['name']}` on one row ({d['where']}): {k} column(s) of `True` at the {'end' if d['kind'] == 'true_at_end' else 'start'}, "
            f"the rest copied from column {s} on -/\ndef {lean_name} (m : List Bool) : List Bool := {body}\n")


def _cmp_fn(c: str) -> str:
    # xs <cmp> x, element a of xs
    return {"ge": "fun a => leb x a", "gt": "fun a => ltb x a", "lt": "fun a => ltb a x", "le": "fun a => leb a x"}[c]


def emit(d: dict) -> str:
    sh, v = d["shifts"], d["vec"]
    lean_shift = {"left_shift": "leftShift", "right_shift": "rightShift"}
    b = {"first": v["first"], "second": v["second"]}
    n0, n1 = v["node0"], v["node1"]
    return f"""import NssVerif.Model.Scalar
import NssVerif.Gen.Src.C18
/-!
GENERATED on every run by harness/masktrans.py from the source of the working tree — do not edit.

* `left_shift`, `right_shift`, the bracketing half of `vec_1d_interp`  <-  {v['where']}   (ast sha256 {d['ast_sha256'][:16]})
-/
namespace Gen.Src.C18Mask
variable {{α : Type}} [Scalar α]
open Scalar

{_shift_def('leftShift', sh['left_shift'])}
{_shift_def('rightShift', sh['right_shift'])}
/-- first bracket of `vec_1d_interp`: `{b['first']['mask']} = xor (xs {b['first']['cmp']} x) ({b['first']['shift']} …)`, one row -/
def maskA (xs : List α) (x : α) : List Bool :=
  let m := xs.map ({_cmp_fn(b['first']['cmp'])})
  List.zipWith xor m ({lean_shift[b['first']['shift']]} m)

/-- second bracket: `{b['second']['mask']} = xor (xs {b['second']['cmp']} x) ({b['second']['shift']} …)`, one row -/
def maskB (xs : List α) (x : α) : List Bool :=
  let m := xs.map ({_cmp_fn(b['second']['cmp'])})
  List.zipWith xor m ({lean_shift[b['second']['shift']]} m)

/-- column indices of the `true` entries of one mask row -/
def trueIdx (m : List Bool) : List Nat := (List.range m.length).filter fun i => m.getD i false
/-- `np.where(mask)[1]`: column indices of all `true`s, row-major -/
def whereCols (m : List (List Bool)) : List Nat := m.flatMap trueIdx
/-- `xs[mask]`: the masked entries in row-major order -/
def masked (rows : List (List α)) (ms : List (List Bool)) : List α :=
  (List.zipWith (fun r m => (List.zip r m).filterMap fun p => if p.2 then some p.1 else none) rows ms).flatten

/-- which bracket supplies the node (x0, y0) of the formula, which one (x1, y1): `{n0}` / `{n1}` -/
def node0FromFirst : Bool := {'true' if n0 == 'first' else 'false'}

/-- `vec_1d_interp` as read from the source: flat index lists and masked abscissae of both brackets, then the translated
two-point formula row by row; `none` when the flat lists do not have one entry per row (numpy raises) -/
def vecInterp (rows : List (List α)) (ys : List α) (x : List α) : Option (List α) :=
  let mA := List.zipWith maskA rows x
  let mB := List.zipWith maskB rows x
  let iA := whereCols mA
  let iB := whereCols mB
  if iA.length = x.length ∧ iB.length = x.length then
    let xA := masked rows mA
    let xB := masked rows mB
    let (i0, x0, i1, x1) := if node0FromFirst then (iA, xA, iB, xB) else (iB, xB, iA, xA)
    some ((List.range x.length).map fun k =>
      Gen.Src.C18.vec1dInterp (x.getD k 0) (ys.getD (i0.getD k 0) 0) (x0.getD k 0) (ys.getD (i1.getD k 0) 0) (x1.getD k 0))
  else none

end Gen.Src.C18Mask
"""


def regen() -> dict:
    d = read()
    ch = write_if_changed(LEAN / "NssVerif" / "Gen" / "Src" / "C18Mask.lean", emit(d))
    return {"Gen/Src/C18Mask.lean": {"changed": bool(ch), "functions": {"vec_1d_interp (bracketing), left_shift, right_shift": {
        "source": "nuspacesim.utils.interp", "where": d["vec"]["where"], "ast_sha256": d["ast_sha256"][:16],
        "recognised": {"left_shift": d["shifts"]["left_shift"], "right_shift": d["shifts"]["right_shift"],
                       "first_bracket": d["vec"]["first"], "second_bracket": d["vec"]["second"],
                       "node0_from": d["vec"]["node0"], "node1_from": d["vec"]["node1"]}}}}}


if __name__ == "__main__":
    import json
    print(json.dumps(regen(), indent=1))
