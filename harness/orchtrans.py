"""Source tie for the orchestration properties C14 / C17: read `nuspacesim.compute.compute` of the working tree statement by
statement, in source order, and regenerate `lean/NssVerif/Gen/Src/C14.lean` (used by Props/C14 and Props/C17).

`compute` is not arithmetic: it is a fixed sequence of stage calls whose results reach the output table through the local
`StagedWriter`.  The reader recognises exactly the statement forms of that sequence and turns them into the sequence of
writer operations (`Model.StagedWriter.Boundary`: "add these columns" / "add this header key") as a Lean *function of the
configuration flags*:

    sim = results_table.init(config)            ->  the table; the header keys written up front are read from `init`
    v = Cls(config)                              ->  `v` is a stage object of class `Cls` (resolved through compute.py's imports)
    v = A(config) if <flag> else B(config)       ->  … of class A or B depending on the flag
    class StagedWriter: …; sw = StagedWriter()   ->  the writer; its two methods are read (mutate, then write when staging)
    … = v(…, store=sw, …) / v.m(…, store=sw, …)  ->  the operations the callee performs on `store`, read from the SOURCE OF THE
                                                     CALLEE: the names in its `@nss_result_store(…)` / `@nss_result_store_scalar`
                                                     decorator, or — for an undecorated callee — the `store([...], [...])` /
                                                     `store.add_meta("K", …)` statements of its body and the callees it
                                                     forwards `**kwargs` to (`Spectra.__call__` -> `energy_spectra`);
                                                     literal keyword arguments of the call site (`method="Optical"`) are
                                                     propagated into `kwargs["method"]` and `A if method == "…" else B`
    sw(("a", "b"), (…))                          ->  add columns a, b        sw.add_meta("K", v, c)  ->  add header key K
    if config.simulation.mode == "Target": …     ->  guard `target`;  config.detector.optical.enable -> `optical`;
    if config.detector.radio.enable: …               config.detector.radio.enable -> `radio`
    if <first result of the geometry call>.size == 0: … return sim   ->  guard `noSurvivors`: nothing that follows is executed
    return sim                                   ->  end of the sequence

Statements that touch neither the table, nor the writer, nor a stage object (logging, local helper functions, arithmetic on
results, `calculate_snr(…)`) perform no writer operation; they are still recorded in the data-flow list (`flow`): for every
assignment and every writer/stage call, the guard block it sits in (common / optical / radio), the local variables it reads
together with the block of their most recent definition, and the variables it defines.  Props/C14 proves from that list that no
statement of one channel's block reads a value defined in the other channel's block.

The result-store decorators of `utils/decorators.py` are read too (the calls they make on `store`); the reading relied upon is
that `nss_result_store(*names)` makes ONE `store(names, values)` call and `nss_result_store_scalar(names, comments)` one
`store.add_meta(name, …)` per name in order.  Anything else raises `Unsupported`.

Whatever the reader cannot classify — another statement form mentioning the table / the writer (a loop, a `try`, a `with`, a
nested helper that captures the writer), a stage call whose callee cannot be found or uses `store` in a way not listed above,
a non-literal column name or header key, an unknown decorator, a guard it does not know around a writer operation — raises
`Unsupported`: the regeneration fails and the verdict logic reports a broken tie.  It never guesses.
"""
from __future__ import annotations

import ast
import hashlib
from pathlib import Path

from common import LEAN, REPO, write_if_changed

PKG = "src/nuspacesim"
REL = f"{PKG}/compute.py"
REL_DEC = f"{PKG}/utils/decorators.py"
REL_INIT = f"{PKG}/results_table.py"
FLAGS = ("target", "optical", "radio", "noSurvivors")
STORE_DECOS = ("nss_result_store", "nss_result_store_scalar")
INERT_DECOS = ("nss_result_plot", "ensure_plot_registry", "wraps", "staticmethod")


class Unsupported(Exception):
    pass


def _need(cond, what, node=None, where="compute"):
    if not cond:
        at = f" (line {node.lineno})" if node is not None and hasattr(node, "lineno") else ""
        raise Unsupported(f"{where}: {what}{at}")


def _names(node) -> set:
    return {n.id for n in ast.walk(node) if isinstance(n, ast.Name)}


def _strip_doc(body):
    body = list(body)
    if body and isinstance(body[0], ast.Expr) and isinstance(body[0].value, ast.Constant) and isinstance(body[0].value.value, str):
        return body[1:]
    return body


def _sha(*nodes) -> str:
    """sha256 of the AST dump (docstrings removed, positions not included)"""
    txt = ""
    for n in nodes:
        n = ast.parse(ast.unparse(n))          # fresh copy
        for x in ast.walk(n):
            if isinstance(x, (ast.FunctionDef, ast.ClassDef, ast.Module)):
                x.body = _strip_doc(x.body) or [ast.Pass()]
        txt += ast.dump(n)
    return hashlib.sha256(txt.encode()).hexdigest()[:16]


def _dotted(n):
    parts = []
    while isinstance(n, ast.Attribute):
        parts.append(n.attr)
        n = n.value
    if isinstance(n, ast.Name):
        parts.append(n.id)
        return ".".join(reversed(parts))
    return None


def _str_const(n):
    return n.value if isinstance(n, ast.Constant) and isinstance(n.value, str) else None


def _str_list(n, what, node, where):
    _need(isinstance(n, (ast.Tuple, ast.List)), f"{what}: a literal tuple/list of names expected, found `{ast.unparse(n)[:60]}`", node, where)
    out = []
    for e in n.elts:
        s = _str_const(e)
        _need(s is not None, f"{what}: a name that is not a string literal (`{ast.unparse(e)[:40]}`)", node, where)
        out.append(s)
    return out


# --------------------------------------------------------------------------- op trees
# a tree is a list of nodes:  ("cols", [names]) | ("key", "K") | ("if", flag, [then nodes], [else nodes])


def _simplify(tree):
    out = []
    for n in tree:
        if n[0] == "if":
            a, b = _simplify(n[2]), _simplify(n[3])
            if a == b:
                out += a
            else:
                out.append(("if", n[1], a, b))
        else:
            out.append(n)
    return out


def evaluate(tree, flags: dict) -> list:
    """the writer operations for one flag assignment: [("cols", [...]) | ("key", "K")]"""
    out = []
    for n in tree:
        if n[0] == "if":
            out += evaluate(n[2] if flags[n[1]] else n[3], flags)
        else:
            out.append(n)
    return out


# --------------------------------------------------------------------------- the decorators


def read_decorators(repo: Path) -> dict:
    where = REL_DEC
    tree = ast.parse((Path(repo) / REL_DEC).read_text())
    fns = {n.name: n for n in tree.body if isinstance(n, ast.FunctionDef)}
    out = {}
    for name in STORE_DECOS:
        _need(name in fns, f"{name} not found", None, where)
        fn = fns[name]
        inner = [n for n in ast.walk(fn) if isinstance(n, ast.FunctionDef) and n is not fn and n.args.kwonlyargs]
        _need(len(inner) == 1 and [a.arg for a in inner[0].args.kwonlyargs] == ["store"] and inner[0].args.vararg is not None
              and inner[0].args.kwarg is not None, f"{name}: one wrapper `f(*args, store=None, **kwargs)` expected", fn, where)
        w = inner[0]
        body = _strip_doc(w.body)
        _need(len(body) == 3 and isinstance(body[0], ast.Assign) and isinstance(body[0].value, ast.Call)
              and ast.unparse(body[0].value) == f"func(*{w.args.vararg.arg}, **{w.args.kwarg.arg})", f"{name}: wrapper does not start with `values = func(*args, **kwargs)`", w, where)
        vals = ast.unparse(body[0].targets[0])
        _need(isinstance(body[2], ast.Return) and body[2].value is not None and ast.unparse(body[2].value) == vals, f"{name}: wrapper does not return the values", w, where)
        g = body[1]
        _need(isinstance(g, ast.If) and ast.unparse(g.test) == "store is not None" and not g.orelse, f"{name}: `if store is not None:` expected", g, where)
        calls = []
        for st in sorted((x for x in ast.walk(g) if isinstance(x, ast.Call)), key=lambda x: (x.lineno, x.col_offset)):
            if (_dotted(st.func) or "").split(".")[0] == "store":
                calls.append(ast.unparse(st))
        out[name] = {"store_calls": calls, "sha": _sha(fn), "where": f"{REL_DEC}:{fn.lineno}-{fn.end_lineno}", "params": [a.arg for a in fn.args.args], "vararg": fn.args.vararg.arg if fn.args.vararg else None}
    d = out["nss_result_store"]
    _need(d["vararg"] == "names" and d["store_calls"] == ["store(names, [*values])", "store(names, [values])"],
          f"nss_result_store: its calls on `store` are not the one `store(names, values)` call this reader relies on: {d['store_calls']}", None, where)
    d = out["nss_result_store_scalar"]
    _need(d["params"][:1] == ["names"] and d["store_calls"][:1] == ["store.add_meta(name, value, comment)"],
          f"nss_result_store_scalar: its calls on `store` are not the per-name `store.add_meta` this reader relies on: {d['store_calls']}", None, where)
    fs = [n for n in ast.walk(fns["nss_result_store_scalar"]) if isinstance(n, ast.For)]
    _need(len(fs) == 1 and ast.unparse(fs[0].iter) == "zip(names, values, comments)" and ast.unparse(fs[0].target) == "(name, value, comment)",
          "nss_result_store_scalar: `for name, value, comment in zip(names, values, comments)` expected", None, where)
    return out


# --------------------------------------------------------------------------- results_table.init


def read_init(repo: Path) -> dict:
    where = REL_INIT
    tree = ast.parse((Path(repo) / REL_INIT).read_text())
    fn = next((n for n in tree.body if isinstance(n, ast.FunctionDef) and n.name == "init"), None)
    _need(fn is not None, "init not found", None, where)
    keys, prefixes = [], []
    found = False
    for r in ast.walk(fn):
        if not (isinstance(r, ast.Return) and isinstance(r.value, ast.Call) and _dotted(r.value.func) == "AstropyTable"):
            continue
        for kw in r.value.keywords:
            if kw.arg != "meta":
                continue
            found = True
            _need(isinstance(kw.value, ast.Dict), "init: meta is not a literal dict", r, where)
            for k, v in zip(kw.value.keys, kw.value.values):
                if k is None:
                    _need(isinstance(v, ast.Call) and _dotted(v.func) == "flatten_dict" and len(v.args) >= 2 and _str_const(v.args[1]) is not None,
                          "init: `**flatten_dict(<dump>, \"<prefix>\", …)` expected", r, where)
                    prefixes.append(_str_const(v.args[1]))
                else:
                    _need(_str_const(k) is not None, "init: a header key that is not a string literal", r, where)
                    keys.append(_str_const(k))
    _need(found, "init: no `AstropyTable(meta={…})` found", fn, where)
    return {"keys": keys, "prefixes": prefixes, "sha": _sha(fn), "where": f"{REL_INIT}:{fn.lineno}-{fn.end_lineno}"}


# --------------------------------------------------------------------------- callees


class _Modules:
    def __init__(self, repo: Path):
        self.repo = Path(repo)
        self.cache = {}

    def load(self, rel: str):
        if rel not in self.cache:
            p = self.repo / rel
            _need(p.exists(), f"module file {rel} not found")
            self.cache[rel] = ast.parse(p.read_text())
        return self.cache[rel]

    def resolve_import(self, level: int, module: str | None) -> str:
        _need(level == 1, "only imports relative to the package are resolved")
        base = PKG + ("/" + module.replace(".", "/") if module else "")
        if (self.repo / (base + ".py")).exists():
            return base + ".py"
        return base + "/__init__.py"


def _find_method(mods: _Modules, rel: str, cls: str, meth: str):
    tree = mods.load(rel)
    c = next((n for n in tree.body if isinstance(n, ast.ClassDef) and n.name == cls), None)
    _need(c is not None, f"class {cls} not found in {rel}")
    for b in c.bases:
        _need(isinstance(b, ast.Name) and b.id == "object", f"class {cls} has a base class ({ast.unparse(b)}): inherited methods are not read", c, rel)
    fns = [n for n in c.body if isinstance(n, ast.FunctionDef) and n.name == meth]
    _need(len(fns) == 1, f"{cls}.{meth}: {'no' if not fns else 'more than one'} definition in {rel}", c, rel)
    return fns[0]


def _callee_ops(mods: _Modules, rel: str, fn: ast.FunctionDef, owner: str, kw_literals: dict, has_store: bool, used: dict, depth=0) -> list:
    """the writer operations performed by one call of `fn` (source in `rel`) when `store=<the writer>` is passed (has_store)"""
    where = f"{rel}:{owner}{fn.name}"
    _need(depth < 4, "forwarding chain too deep", fn, where)
    used[f"{owner}{fn.name}"] = {"where": f"{rel}:{fn.lineno}-{fn.end_lineno}", "sha": _sha(fn)}
    store_deco = []
    for d in fn.decorator_list:
        dn = _dotted(d.func) if isinstance(d, ast.Call) else _dotted(d)
        _need(dn is not None, "a decorator that is not a plain (dotted) name", d, where)
        short = dn.split(".")[-1]
        if short in STORE_DECOS:
            store_deco.append((short, d))
        else:
            _need(short in INERT_DECOS, f"unknown decorator @{dn}", d, where)
    _need(len(store_deco) <= 1, "more than one result-store decorator", fn, where)
    if store_deco:
        short, d = store_deco[0]
        _need(isinstance(d, ast.Call) and not d.keywords, "result-store decorator without literal arguments", fn, where)
        if not has_store:
            return []
        if short == "nss_result_store":
            for a in d.args:
                _need(_str_const(a) is not None, f"@nss_result_store: a column name that is not a string literal (`{ast.unparse(a)[:40]}`)", d, where)
            _need(d.args, "@nss_result_store without names", d, where)
            return [("cols", [_str_const(a) for a in d.args])]
        _need(len(d.args) == 2, "@nss_result_store_scalar(names, comments) expected", d, where)
        ks = _str_list(d.args[0], "@nss_result_store_scalar names", d, where)
        cs = _str_list(d.args[1], "@nss_result_store_scalar comments", d, where)
        _need(len(ks) == len(cs) and len(ks) >= 2, "@nss_result_store_scalar: names/comments of different length (or a single name: the non-tuple branch is not read)", d, where)
        return [("key", k) for k in ks]
    # ---- no result-store decorator: the body decides
    a = fn.args
    kwname = a.kwarg.arg if a.kwarg else None
    explicit = "store" in [x.arg for x in a.args + a.kwonlyargs]
    if not has_store:
        return []
    _need(kwname is not None or explicit, "callee receives store=… but has neither a `store` parameter nor **kwargs", fn, where)
    env = dict()                  # local name -> literal string | ("store",) | None (unknown)
    if explicit:
        env["store"] = ("store",)
    ops = []

    def storeish(node):
        ns = _names(node)
        return bool(ns & ({kwname} if kwname else set())) or "store" in ns or any(isinstance(env.get(n), tuple) for n in ns)

    def relevant(node):
        return storeish(node) or bool(_names(node) & set(env))

    def forget(stmts):
        for st in stmts:
            for x in ast.walk(st):
                if isinstance(x, ast.Name) and isinstance(x.ctx, ast.Store) and x.id in env and not isinstance(env[x.id], tuple):
                    env[x.id] = None

    def sval(e):
        """string value of an expression under env, or None"""
        s = _str_const(e)
        if s is not None:
            return s
        if isinstance(e, ast.Name):
            v = env.get(e.id)
            return v if isinstance(v, str) else None
        if isinstance(e, ast.IfExp):
            t = btest(e.test)
            if t is None:
                return None
            return sval(e.body if t else e.orelse)
        return None

    def btest(t):
        if isinstance(t, ast.Compare) and len(t.ops) == 1 and isinstance(t.ops[0], (ast.Eq, ast.NotEq)):
            l, r = sval(t.left), sval(t.comparators[0])
            if l is None or r is None:
                return None
            return (l == r) == isinstance(t.ops[0], ast.Eq)
        return None

    def kwsub(e):
        """kwargs["lit"] -> the literal"""
        if kwname and isinstance(e, ast.Subscript) and isinstance(e.value, ast.Name) and e.value.id == kwname:
            return _str_const(e.slice)
        return None

    def fwd_call(c):
        """a call that forwards **kwargs: resolve and recurse"""
        for k in c.keywords:
            _need(k.arg is None or "store" not in _names(k.value), "store passed on under another form", c, where)
        tgt = _dotted(c.func)
        _need(tgt is not None, "forwarding call to something that is not a plain name", c, where)
        if tgt.startswith("self."):
            _need(owner, "self.… outside a class", c, where)
            sub = _find_method(mods, rel, owner[:-1], tgt[5:])
            return _callee_ops(mods, rel, sub, owner, kw_literals, True, used, depth + 1)
        _need("." not in tgt, f"forwarding call to `{tgt}`: only functions of the same module / methods of self are read", c, where)
        sub = next((n for n in mods.load(rel).body if isinstance(n, ast.FunctionDef) and n.name == tgt), None)
        _need(sub is not None, f"forwarded callee `{tgt}` not found in {rel}", c, where)
        return _callee_ops(mods, rel, sub, "", kw_literals, True, used, depth + 1)

    def forwards(c):
        return isinstance(c, ast.Call) and kwname and any(k.arg is None and isinstance(k.value, ast.Name) and k.value.id == kwname for k in c.keywords)

    def walk(stmts, live: bool):
        for st in stmts:
            if not relevant(st):
                continue
            if isinstance(st, ast.Assign) and len(st.targets) == 1 and isinstance(st.targets[0], ast.Name):
                tname = st.targets[0].id
                key = kwsub(st.value)
                if key is not None:
                    if key == "store":
                        env[tname] = ("store",)
                    else:
                        env[tname] = kw_literals.get(key)      # a literal string of the call site, or None
                    continue
                if isinstance(st.value, ast.Constant) and st.value.value is None and tname == "store":
                    continue                                    # `store = None` in the branch not taken (store IS passed)
                if forwards(st.value):
                    ops.extend(fwd_call(st.value))
                    continue
                if not storeish(st.value):
                    env[tname] = sval(st.value)                 # e.g. col_name = "a" if method == "Optical" else "b"
                    continue
                _need(False, f"`{ast.unparse(st)[:70]}`: a use of store/kwargs this reader does not know", st, where)
            if isinstance(st, ast.If):
                src = ast.unparse(st.test)
                if kwname and src in (f"'store' in {kwname}.keys()", f"'store' in {kwname}"):
                    walk(st.body, live)                          # store IS passed by the call site
                    continue
                if src in ("store is not None", "store"):
                    _need(isinstance(env.get("store"), tuple), "`store` tested before it is bound", st, where)
                    walk(st.body, live)
                    continue
                if not storeish(st.test) and not any(storeish(x) for x in st.body + st.orelse):
                    forget(st.body + st.orelse)
                    continue
                _need(not storeish(st.test), f"store/kwargs tested in a way this reader does not know (`{src[:50]}`)", st, where)
                t = btest(st.test)
                _need(t is not None, f"condition `{src[:60]}` on store/kwargs not decidable from the call site", st, where)
                walk(st.body if t else st.orelse, live)
                continue
            if isinstance(st, ast.Expr) and isinstance(st.value, ast.Call):
                c = st.value
                tgt = _dotted(c.func)
                if tgt == "store" and isinstance(env.get("store"), tuple):
                    _need(len(c.args) == 2 and not c.keywords, "store(<names>, <values>) expected", st, where)
                    _need(isinstance(c.args[0], (ast.List, ast.Tuple)), "store(...): the names are not a literal list", st, where)
                    names = []
                    for e in c.args[0].elts:
                        s = sval(e)
                        _need(s is not None, f"store(...): column name `{ast.unparse(e)[:40]}` is not determined by the call site", st, where)
                        names.append(s)
                    ops.append(("cols", names))
                    continue
                if tgt == "store.add_meta" and isinstance(env.get("store"), tuple):
                    _need(len(c.args) == 3 and not c.keywords, "store.add_meta(<key>, <value>, <comment>) expected", st, where)
                    s = sval(c.args[0])
                    _need(s is not None, f"store.add_meta: key `{ast.unparse(c.args[0])[:40]}` is not determined by the call site", st, where)
                    ops.append(("key", s))
                    continue
                if forwards(c):
                    ops.extend(fwd_call(c))
                    continue
            if isinstance(st, ast.Return) and st.value is not None:
                elts = st.value.elts if isinstance(st.value, ast.Tuple) else [st.value]
                if all(forwards(e) or not relevant(e) for e in elts):
                    for e in elts:                               # a tuple is evaluated left to right
                        if forwards(e):
                            ops.extend(fwd_call(e))
                    continue
            if isinstance(st, ast.Raise) or (isinstance(st, ast.Expr) and isinstance(st.value, ast.Constant)):
                continue
            if not storeish(st):
                forget([st])
                continue
            _need(False, f"`{ast.unparse(st).splitlines()[0][:70]}`: a use of store/kwargs this reader does not know", st, where)

    walk(_strip_doc(fn.body), True)
    return ops


# --------------------------------------------------------------------------- compute()


def read(repo: Path = REPO) -> dict:
    repo = Path(repo)
    mods = _Modules(repo)
    decos = read_decorators(repo)
    init = read_init(repo)
    tree = mods.load(REL)
    fn = next((n for n in tree.body if isinstance(n, ast.FunctionDef) and n.name == "compute"), None)
    _need(fn is not None, "function compute not found")
    params = [a.arg for a in fn.args.args + fn.args.kwonlyargs]
    _need(params[:1] == ["config"] and "write_stages" in params and "output_file" in params, "compute(config, …, output_file, …, write_stages) expected", fn)
    # imports of compute.py:  local name -> (module file, name)
    imported = {}
    for n in tree.body:
        if isinstance(n, ast.ImportFrom) and n.level >= 1:
            for al in n.names:
                imported[al.asname or al.name] = (n.level, n.module, al.name)

    stage = {}        # stage variable -> binding: ("cls", rel, Cls) | ("ite", flag, binding, binding)
    used = {}         # callee -> where / sha
    writer = {}       # the StagedWriter read
    st_ = {"sim": None, "sw": None, "sw_class": None, "first_result": None, "local_fns": set()}
    flow = []
    defs = {p: "common" for p in params}     # local variable -> block of its most recent definition

    def flag_of(test):
        """(flag, polarity) of a recognised guard, or None"""
        if isinstance(test, ast.UnaryOp) and isinstance(test.op, ast.Not):
            r = flag_of(test.operand)
            return (r[0], not r[1]) if r else None
        src = ast.unparse(test)
        if src == "config.detector.optical.enable":
            return ("optical", True)
        if src == "config.detector.radio.enable":
            return ("radio", True)
        if src in ("config.simulation.mode == 'Target'", "'Target' == config.simulation.mode"):
            return ("target", True)
        if src in ("config.simulation.mode != 'Target'",):
            return ("target", False)
        fr = st_["first_result"]
        if fr and src in (f"{fr}.size == 0", f"len({fr}) == 0", f"{fr}.shape[0] == 0", f"not {fr}.size"):
            return ("noSurvivors", True)
        return None

    def ctor(e):
        """Cls(config) with Cls imported from the package -> binding"""
        if isinstance(e, ast.Call) and isinstance(e.func, ast.Name) and e.func.id in imported and e.func.id[:1].isupper():
            _need(len(e.args) == 1 and ast.unparse(e.args[0]) == "config" and not e.keywords, f"{e.func.id}(config) expected", e)
            lvl, module, name = imported[e.func.id]
            return ("cls", mods.resolve_import(lvl, module), name)
        if isinstance(e, ast.IfExp):
            f = flag_of(e.test)
            a, b = ctor(e.body), ctor(e.orelse)
            if a and b:
                _need(f is not None and f[0] == "target", f"stage object chosen by a condition this reader does not know (`{ast.unparse(e.test)[:50]}`)", e)
                return ("ite", f[0], a, b) if f[1] else ("ite", f[0], b, a)
        return None

    def tracked(node) -> set:
        ns = _names(node)
        return ns & ({"sim", "sw", "results_table"} | ({st_["sw_class"]} if st_["sw_class"] else set()))

    def binding_ops(b, meth, kw_literals, has_store):
        if b[0] == "ite":
            return [("if", b[1], binding_ops(b[2], meth, kw_literals, has_store), binding_ops(b[3], meth, kw_literals, has_store))]
        _, rel, cls = b
        return _callee_ops(mods, rel, _find_method(mods, rel, cls, meth), cls + ".", kw_literals, has_store, used)

    def record(what, block, node, targets):
        reads = sorted({x.id for x in ast.walk(node) if isinstance(x, ast.Name) and isinstance(x.ctx, ast.Load) and x.id in defs})
        flow.append({"what": what, "block": block, "reads": [(r, defs[r]) for r in reads], "defs": sorted(targets)})
        for t in targets:
            defs[t] = block

    def targets_of(st):
        out = set()
        for t in st.targets:
            for x in ast.walk(t):
                if isinstance(x, ast.Name):
                    out.add(x.id)
        return out

    def call_ops(c, st, block):
        """writer operations of a tracked call (the value of an Assign / Expr), or None when the call is not tracked"""
        f = c.func
        # the writer itself
        if isinstance(f, ast.Name) and f.id == "sw" and st_["sw"]:
            _need(len(c.args) == 2 and not c.keywords, "sw(<names>, <columns>): extra arguments are not read", st)
            return "sw", [("cols", _str_list(c.args[0], "sw(...)", st, "compute"))]
        if isinstance(f, ast.Attribute) and isinstance(f.value, ast.Name) and f.value.id == "sw" and st_["sw"]:
            _need(f.attr == "add_meta", f"sw.{f.attr}: unknown writer method", st)
            _need(len(c.args) == 3 and not c.keywords, "sw.add_meta(<key>, <value>, <comment>) expected", st)
            k = _str_const(c.args[0])
            _need(k is not None, f"sw.add_meta: dynamic key `{ast.unparse(c.args[0])[:40]}`", st)
            return f"sw.add_meta[{k}]", [("key", k)]
        # a stage object
        var = meth = None
        if isinstance(f, ast.Name) and f.id in stage:
            var, meth = f.id, "__call__"
        elif isinstance(f, ast.Attribute) and isinstance(f.value, ast.Name) and f.value.id in stage:
            var, meth = f.value.id, f.attr
        if var is None:
            return None
        for a in c.args:
            _need(not (_names(a) & {"sw", "sim"}), "the writer / the table passed positionally to a stage", st)
            _need(not isinstance(a, ast.Starred), "starred arguments in a stage call", st)
        has_store = False
        lits = {}
        for k in c.keywords:
            _need(k.arg is not None, "**kwargs in a stage call", st)
            if k.arg == "store":
                _need(isinstance(k.value, ast.Name) and k.value.id == "sw", f"store={ast.unparse(k.value)[:30]}: only the writer `sw` is read", st)
                has_store = True
            else:
                _need(not (_names(k.value) & {"sw", "sim"}), f"the writer / the table passed as `{k.arg}`", st)
                s = _str_const(k.value)
                if s is not None:
                    lits[k.arg] = s
        label = f"{var}.{meth}" if meth != "__call__" else var
        if lits:
            label += "[" + ",".join(lits.values()) + "]"
        return label, _simplify(binding_ops(stage[var], meth, lits, has_store))

    def inert(node) -> bool:
        """no table, no writer, no stage call, no return inside"""
        if tracked(node):
            return False
        for x in ast.walk(node):
            if isinstance(x, (ast.Return, ast.Yield, ast.YieldFrom, ast.Global, ast.Nonlocal)):
                return False
            if isinstance(x, ast.Call):
                f = x.func
                if isinstance(f, ast.Name) and f.id in stage:
                    return False
                if isinstance(f, ast.Attribute) and isinstance(f.value, ast.Name) and f.value.id in stage and any(k.arg in (None, "store") for k in x.keywords):
                    return False
        return True

    def read_writer(cls: ast.ClassDef):
        out = {}
        body = _strip_doc(cls.body)
        _need(not cls.bases and not cls.decorator_list, "the writer class has bases / decorators", cls)
        for m in body:
            _need(isinstance(m, ast.FunctionDef) and m.name in ("__call__", "add_meta") and not m.decorator_list, "the writer class: only undecorated `__call__` and `add_meta` are read", m)
            ps = [a.arg for a in m.args.args]
            acts = []
            for s in _strip_doc(m.body):
                src = ast.unparse(s)
                if m.name == "__call__" and isinstance(s, ast.Expr) and isinstance(s.value, ast.Call) and _dotted(s.value.func) == "sim.add_columns":
                    c = s.value
                    _need(len(ps) >= 3 and c.args and ast.unparse(c.args[0]) == ps[2] and any(k.arg == "names" and ast.unparse(k.value) == ps[1] for k in c.keywords),
                          "writer __call__: sim.add_columns(<columns>, names=<col_names>, …) expected", s)
                    acts.append("add_columns")
                elif m.name == "add_meta" and isinstance(s, ast.Assign) and len(ps) >= 4 and src == f"sim.meta[{ps[1]}] = ({ps[2]}, {ps[3]})":
                    acts.append("set_meta")
                elif src == "if write_stages:\n    sim.write(output_file, format='fits', overwrite=True)":
                    acts.append("write_if_staged")
                elif src == "sim.write(output_file, format='fits', overwrite=True)":
                    acts.append("write")
                else:
                    _need(False, f"writer {m.name}: statement `{src.splitlines()[0][:60]}` is not one this reader knows", s)
            out[m.name] = acts
        _need(set(out) == {"__call__", "add_meta"}, "the writer class lacks `__call__` or `add_meta`", cls)
        writer.update(out)
        writer["sha"] = _sha(cls)

    def block_of(guards):
        chans = [g for g, _ in guards if g in ("optical", "radio")]
        _need(len(set(chans)) <= 1, "nested channel guards")
        return chans[0] if chans else "common"

    def walk(stmts, guards) -> list:
        """op tree of a statement list; `guards` = enclosing recognised (flag, polarity) pairs"""
        stmts = list(stmts)
        for i, st in enumerate(stmts):
            rest = stmts[i + 1:]
            block = block_of(guards)
            if isinstance(st, ast.Return):
                _need(st.value is not None and ast.unparse(st.value) == "sim" and st_["sim"], "`return sim` expected", st)
                return []
            if isinstance(st, (ast.FunctionDef, ast.AsyncFunctionDef, ast.Lambda)):
                _need(isinstance(st, ast.FunctionDef) and not tracked(st) and not (_names(st) & set(stage)), f"nested function `{getattr(st, 'name', '?')}` captures the table, the writer or a stage object", st)
                st_["local_fns"].add(st.name)
                continue
            if isinstance(st, ast.ClassDef):
                _need(not guards and st_["sim"] and st_["sw_class"] is None, "a second local class / a class under a guard", st)
                read_writer(st)
                st_["sw_class"] = st.name
                continue
            if isinstance(st, ast.If):
                f = flag_of(st.test)
                if f is None:
                    _need(inert(st), f"`if {ast.unparse(st.test)[:60]}`: a guard this reader does not know around a table / writer / stage operation", st)
                    continue
                flag, pol = f
                _need(flag not in [g for g, _ in guards], f"guard `{flag}` nested in itself", st)
                _need(not (flag in ("optical", "radio") and block != "common"), "nested channel guards", st)
                body_returns = any(isinstance(x, ast.Return) for x in ast.walk(ast.Module(body=st.body, type_ignores=[])))
                else_returns = any(isinstance(x, ast.Return) for x in ast.walk(ast.Module(body=st.orelse, type_ignores=[])))
                if body_returns or else_returns:
                    _need(body_returns and not else_returns and isinstance(st.body[-1], ast.Return) and not st.orelse, "an early return in a form this reader does not know", st)
                    _need(flag == "noSurvivors" and pol and not guards, "an early return under another guard than `no event survives`", st)
                    a = walk(st.body, guards + [(flag, pol)])
                    b = walk(rest, guards)
                    return [("if", flag, a, b)]
                _need(flag != "noSurvivors", "the `no event survives` guard without a return", st)
                a = walk(st.body, guards + [(flag, pol)])
                b = walk(st.orelse, guards + [(flag, not pol)])
                node = ("if", flag, a, b) if pol else ("if", flag, b, a)
                return [node] + walk(rest, guards)
            if isinstance(st, (ast.Assign, ast.AnnAssign, ast.AugAssign, ast.Expr)):
                value = st.value
                tg = targets_of(st) if isinstance(st, ast.Assign) else ({x.id for x in ast.walk(st.target) if isinstance(x, ast.Name)} if not isinstance(st, ast.Expr) else set())
                # the table
                if isinstance(st, ast.Assign) and tg == {"sim"}:
                    _need(st_["sim"] is None and not guards and ast.unparse(value) == "results_table.init(config)" and "results_table" in imported, "`sim = results_table.init(config)` (once, unguarded) expected", st)
                    st_["sim"] = True
                    record("sim", block, value, tg)
                    continue
                # the writer
                if isinstance(st, ast.Assign) and tg == {"sw"}:
                    _need(st_["sw"] is None and not guards and st_["sw_class"] and ast.unparse(value) == f"{st_['sw_class']}()", "`sw = <the local writer class>()` (once, unguarded) expected", st)
                    st_["sw"] = True
                    continue
                _need(not (tg & {"sim", "sw"}), "the table / the writer is re-bound", st)
                # stage objects
                if isinstance(st, ast.Assign) and value is not None:
                    b = ctor(value)
                    if b is not None:
                        _need(len(st.targets) == 1 and isinstance(st.targets[0], ast.Name) and not guards, "a stage object bound under a guard / to several names", st)
                        stage[st.targets[0].id] = b
                        record(st.targets[0].id + " = " + ast.unparse(value).replace("\n", " ")[:50], block, value, tg)
                        continue
                    _need(not (tg & set(stage)), f"stage object `{sorted(tg & set(stage))}` re-bound to something this reader does not know", st)
                if isinstance(value, ast.Call):
                    r = call_ops(value, st, block)
                    if r is not None:
                        label, ops = r
                        for a in list(value.args) + [k.value for k in value.keywords if k.arg != "store"]:
                            for x in ast.walk(a):
                                if isinstance(x, ast.Call):
                                    _need(call_ops(x, st, block) is None, "a stage / writer call nested in the arguments of another", st)
                        if isinstance(st, ast.Assign) and st_["first_result"] is None and label in stage and ops:
                            t0 = st.targets[0]
                            first = t0.elts[0] if isinstance(t0, ast.Tuple) else t0
                            _need(isinstance(first, ast.Name), "first result of the geometry call is not bound to a name", st)
                            st_["first_result"] = first.id
                        record(label, block, ast.Module(body=[ast.Expr(value=ast.Tuple(elts=list(value.args) + [k.value for k in value.keywords if k.arg != "store"], ctx=ast.Load()))], type_ignores=[]), tg)
                        if ops:
                            return ops + walk(rest, guards)
                        continue
                # anything else must not touch the table / the writer, nor call a stage with store
                _need(not tracked(st), f"`{ast.unparse(st).splitlines()[0][:70]}`: a use of the table / the writer this reader does not know", st)
                for x in ast.walk(st):
                    if isinstance(x, ast.Call) and x is not value:
                        _need(call_ops(x, st, block) is None or not call_ops(x, st, block)[1], "a storing stage call nested inside an expression", st)
                if not isinstance(st, ast.Expr):
                    record(",".join(sorted(tg)) + " = " + (ast.unparse(value.func) if isinstance(value, ast.Call) else "…"), block, value, tg)
                continue
            if isinstance(st, (ast.Pass, ast.Import, ast.ImportFrom, ast.Assert)):
                _need(not tracked(st), "the table / the writer in an assert / import", st)
                continue
            # loops, try, with, match, …: only when entirely unrelated to table, writer and stages
            _need(inert(st) and not (_names(st) & set(stage)), f"`{type(st).__name__.lower()}` statement touching the table, the writer or a stage object: not read", st)
        return []

    body = _strip_doc(fn.body)
    ops = _simplify(walk(body, []))
    _need(st_["sim"] and st_["sw"] and writer, "no table / no writer found")
    _need(isinstance(body[-1], ast.Return), "compute does not end in `return sim`", fn)
    return {"ops": ops, "flow": flow, "writer": writer, "init": init, "decorators": decos, "callees": used,
            "stage_objects": {k: _show_binding(v) for k, v in stage.items()}, "first_result": st_["first_result"],
            "where": f"{REL}:{fn.lineno}-{fn.end_lineno}", "sha": _sha(fn)}


def _show_binding(b):
    if b[0] == "ite":
        return f"{_show_binding(b[2])} if {b[1]} else {_show_binding(b[3])}"
    return b[2]


def predict(d: dict, target: bool, optical: bool, radio: bool, no_survivors: bool = False) -> list:
    """the writer operations of one run as the reader predicts them: ["Ca,b,c" | "MKEY"]"""
    seq = evaluate(d["ops"], {"target": target, "optical": optical, "radio": radio, "noSurvivors": no_survivors})
    return ["C" + ",".join(o[1]) if o[0] == "cols" else "M" + o[1] for o in seq]


# --------------------------------------------------------------------------- Lean


def _strs(xs):
    return "[" + ", ".join('"' + x.replace("\\", "\\\\").replace('"', '\\"') + '"' for x in xs) + "]"


def _lean_tree(tree, ind="  ") -> str:
    if not tree:
        return "[]"
    parts = []
    run = []
    for n in tree:
        if n[0] == "if":
            if run:
                parts.append("[" + ", ".join(run) + "]")
                run = []
            parts.append(f"(if {n[1]} then\n{ind}    {_lean_tree(n[2], ind + '    ')}\n{ind}  else\n{ind}    {_lean_tree(n[3], ind + '    ')})")
        elif n[0] == "cols":
            run.append(f".cols {_strs(n[1])}")
        else:
            run.append(f'.hdrKey "{n[1]}"')
    if run:
        parts.append("[" + ", ".join(run) + "]")
    return f" ++\n{ind}".join(parts)


def emit(d: dict) -> str:
    callees = "\n".join(f"* `{k}`  <-  {v['where']}   (ast sha256 {v['sha']})" for k, v in d["callees"].items())
    decos = "\n".join(f"* decorator `{k}`  <-  {v['where']}   (ast sha256 {v['sha']}); calls on `store`: {'; '.join(v['store_calls'])}" for k, v in d["decorators"].items())
    flow = ",\n".join(f"  ⟨\"{f['what']}\", \"{f['block']}\", [" + ", ".join(f'("{a}", "{b}")' for a, b in f["reads"]) + f"], {_strs(f['defs'])}⟩".replace("\\", "") for f in d["flow"])
    return f"""import NssVerif.Model.StagedWriter
/-!
GENERATED on every run by harness/orchtrans.py from the source of the working tree — do not edit.

* `compute`  <-  {d['where']}   (ast sha256 {d['sha']}); local writer class (ast sha256 {d['writer']['sha']})
* `results_table.init`  <-  {d['init']['where']}   (ast sha256 {d['init']['sha']})
{callees}
{decos}

`ops` is the sequence of writer operations `compute` performs, read statement by statement in source order, as a function of
the configuration flags; the column names / header keys of a stage call are those found in the source of its callee.
-/
namespace Gen.Src.C14
open Model.StagedWriter

/-- header keys `results_table.init` writes up front (literal keys) -/
def initKeys : List String := {_strs(d['init']['keys'])}
/-- … and the prefixes of the keys it derives from the configuration -/
def initKeyPrefixes : List String := {_strs(d['init']['prefixes'])}

/-- what the writer's `__call__` does, in order -/
def writerCall : List String := {_strs(d['writer']['__call__'])}
/-- what the writer's `add_meta` does, in order -/
def writerAddMeta : List String := {_strs(d['writer']['add_meta'])}

/-- the writer operations of one `compute` run, in source order (`noSurvivors`: the early `return sim`) -/
def ops (target optical radio noSurvivors : Bool) : List Boundary :=
  {_lean_tree(d['ops'])}

/-- the operations every complete run performs, whatever the channels -/
def common (target : Bool) : List Boundary := ops target false false false
/-- what the optical channel adds -/
def opticalPart (target : Bool) : List Boundary := (ops target true false false).drop (common target).length
/-- what the radio channel adds -/
def radioPart (target : Bool) : List Boundary := (ops target false true false).drop (common target).length

/-- one assignment / stage call / writer call of `compute`: the guard block it sits in, the local variables it reads with the
block of their most recent definition, the variables it defines -/
structure Flow where
  what : String
  block : String
  reads : List (String × String)
  defs : List String

/-- data flow of `compute`, in source order -/
def flow : List Flow := [
{flow}]

end Gen.Src.C14
"""


def regen() -> dict:
    d = read()
    (LEAN / "NssVerif" / "Gen" / "Src").mkdir(parents=True, exist_ok=True)
    ch = write_if_changed(LEAN / "NssVerif" / "Gen" / "Src" / "C14.lean", emit(d))
    combos = {f"target={int(t)} optical={int(o)} radio={int(r)}": predict(d, t, o, r) for t in (False, True) for o in (False, True) for r in (False, True)}
    return {"Gen/Src/C14.lean": {"changed": bool(ch), "functions": {"ops": {
        "source": "nuspacesim.compute.compute", "where": d["where"], "ast_sha256": d["sha"],
        "recognised": {"stage_objects": d["stage_objects"], "callees": d["callees"], "writer": {k: v for k, v in d["writer"].items()},
                       "init_keys": d["init"]["keys"], "init_key_prefixes": d["init"]["prefixes"], "survivors_variable": d["first_result"],
                       "decorators": {k: {"where": v["where"], "sha": v["sha"]} for k, v in d["decorators"].items()},
                       "flow_statements": len(d["flow"]), "operations": combos}}}}}


if __name__ == "__main__":
    import json
    import sys
    dd = read(Path(sys.argv[1]) if len(sys.argv) > 1 else REPO)
    print(emit(dd))
    print(json.dumps(predict(dd, True, True, True)))
