"""Generator of the numeric sections of lean/NssVerif/Lemmas/AtmNumeric.lean (C19).

Reads the exact dyadic layer constants from lean/NssVerif/Gen/AtmConsts.lean (the file `harness/props/C19.py: regen()`
writes from `nuspacesim.constants`) and prints
  * the section "table ratios (generated)": for every boundary j = 1..7 an enclosure `log_Pj` of log(P_{j-1}/P_j), for a
    gradient layer below also `log_Tj` of log(T_{j-1}/T_{j-1}(H_j)), and the combination `epsj_core`;
  * the bridge theorems `eps1 .. eps7`, which re-derive every rational from `Gen.AtmConsts.layers` by `norm_num`.
Each logarithm: y = 2^k m, m in [2^-1/2, 2^1/2], log m = +-2 artanh x with x = |m-1|/(m+1); the number of terms is chosen so
that the remainder bound x^(2n+1)/(1-x^2) is below 1e-14 (1e-15 for the temperature ratios, which are multiplied by g/L <= 35).

    /venv/bin/python harness/atm_numeric_gen.py            # the Lean text
    /venv/bin/python harness/atm_numeric_gen.py --summary  # the enclosures

This script is NOT run by the check: the hand-written parts of AtmNumeric.lean and Props/C19.lean quote the resulting bounds
(`up2 .. up7`, `abs_eps_le`, `cumSteps`, the parameters of the slivers), so after a change of the constants in /repo the build of
AtmNumeric.lean fails (reported as a proof obligation that no longer checks) until the numbers are regenerated and re-examined.
"""
import math
import re
import sys
from fractions import Fraction as F
from pathlib import Path

GEN = Path(__file__).resolve().parent.parent / "lean" / "NssVerif" / "Gen" / "AtmConsts.lean"


def _parse(path=GEN):
    txt = path.read_text()

    def dy(m, e):
        return F(int(m)) * F(2) ** int(e)

    def row(name):
        line = re.search(r"^\s*" + name + r" := \[(.*)\]", txt, re.M).group(1)
        vals = []
        for item in line.split(","):
            item = item.strip()
            if item == "inf":
                vals.append(None)
                continue
            m = re.fullmatch(r"dy \(?(-?\d+)\)? \(?(-?\d+)\)?", item)
            vals.append(dy(m.group(1), m.group(2)))
        return vals

    gm = re.search(r"gmr := dy \(?(-?\d+)\)? \(?(-?\d+)\)?", txt)
    return row("hb"), row("lm"), row("tb"), row("pb"), dy(gm.group(1), gm.group(2))


hb, lm, tb, pb, g = _parse()

DIG = 16
def fl(q, d=DIG):  # round down to d decimals
    s = F(10)**d
    return F(math.floor(q*s), s)
def ce(q, d=DIG):
    s = F(10)**d
    return F(math.ceil(q*s), s)
def lit(q):
    """Lean real literal for a rational"""
    q = F(q)
    if q.denominator == 1:
        return f"({q.numerator} : ℝ)" if q >= 0 else f"(-{-q.numerator} : ℝ)"
    if q < 0:
        return f"(-{-q.numerator} / {q.denominator} : ℝ)"
    return f"({q.numerator} / {q.denominator} : ℝ)"
def sci(q, d=12):
    n = q*F(10)**d
    assert n.denominator == 1
    n = n.numerator
    return f"({n}e-{d} : ℝ)" if n >= 0 else f"(-{-n}e-{d} : ℝ)"
def S(n, x): return sum(x**(2*i+1)/(2*i+1) for i in range(n))
def R(n, x): return x**(2*n+1)/(1-x*x)

# log 2 from x = 1/3, n = 16
L2N = 16
l2lo = fl(2*S(L2N, F(1,3)), 14); l2hi = ce(2*(S(L2N,F(1,3))+R(L2N,F(1,3))), 14)

def gen_log(name, y, tol=F(1, 10**14)):
    """returns (lean text, lo, hi) for the theorem `name : lo ≤ log y ∧ log y ≤ hi`"""
    y = F(y)
    k = round(math.log2(float(y)))
    m = y / F(2)**k
    assert k >= 0
    ge = m >= 1
    x = (m-1)/(m+1) if ge else (1-m)/(1+m)
    n = 1
    while 2*R(n, x) > tol: n += 1
    slo = fl(S(n, x)); shi = ce(S(n, x)+R(n, x))
    if ge: mlo, mhi = 2*slo, 2*shi
    else: mlo, mhi = -2*shi, -2*slo
    lo = fl(k*l2lo + mlo, 15); hi = ce(k*l2hi + mhi, 15)
    Y = lit(y); M = lit(m); X = lit(x)
    lem = "log_enclosure_ge" if ge else "log_enclosure_le"
    t = []
    t.append(f"/-- `log {float(y):.12g}` = {k}·log 2 + log {float(m):.12g}, artanh series at x = {float(x):.6g}, {n} terms -/")
    t.append(f"theorem {name} : {lit(lo)} ≤ Real.log {Y} ∧ Real.log {Y} ≤ {lit(hi)} := by")
    t.append(f"  have h := {lem} (y := {M}) (x := {X}) {n} (by norm_num) (by norm_num) (by norm_num)")
    t.append(f"  have lo' : {lit(slo)} ≤ S {n} {X} := by unfold S; norm_num [Finset.sum_range_succ]")
    t.append(f"  have hi' : S {n} {X} + {X} ^ (2 * {n} + 1) / (1 - {X} ^ 2) ≤ {lit(shi)} := by")
    t.append(f"    unfold S; norm_num [Finset.sum_range_succ]")
    if k > 0:
        t.append(f"  have e : {Y} = 2 ^ {k} * {M} := by norm_num")
        t.append(f"  rw [e, Real.log_mul (by norm_num) (by norm_num), Real.log_pow]")
        t.append(f"  have l2 := log_two_bounds")
        t.append(f"  constructor <;> push_cast <;> linarith [h.1, h.2, l2.1, l2.2]")
    else:
        t.append(f"  constructor <;> linarith [h.1, h.2]")
    return "\n".join(t), lo, hi

out = []
bridge = []
summary = []
for j in range(1, 8):
    i = j-1
    dH = hb[j]-hb[i]
    pr = pb[i]/pb[j]
    tP, plo, phi = gen_log(f"log_P{j}", pr)
    out.append(tP)
    if lm[i] == 0:
        Q = g/tb[i]*dH       # (g/T)·ΔH
        lo = plo - Q; hi = phi - Q
        elo = fl(lo, 12); ehi = ce(hi, 12)
        t = []
        t.append(f"/-- boundary {j} (H = {float(hb[j])} km, isothermal layer below): ε_{j} = log(P_{i}/P_{j}) − (g/T)·ΔH -/")
        t.append(f"theorem eps{j}_core : {sci(elo)} ≤ Real.log {lit(pr)} + {lit(-g/tb[i])} * {lit(dH)} ∧")
        t.append(f"    Real.log {lit(pr)} + {lit(-g/tb[i])} * {lit(dH)} ≤ {sci(ehi)} := by")
        t.append(f"  have a := log_P{j}")
        t.append(f"  constructor <;> linarith [a.1, a.2]")
        out.append("\n".join(t))
        kind = 'iso'
    else:
        tr = tb[i]/(tb[i]+lm[i]*dH)
        c = g/lm[i]
        tT, tlo, thi = gen_log(f"log_T{j}", tr if tr >= 1 else tr, tol=F(1, 10**15))
        out.append(tT)
        if c >= 0:
            lo = plo + c*tlo; hi = phi + c*thi
        else:
            lo = plo + c*thi; hi = phi + c*tlo
        elo = fl(lo, 12); ehi = ce(hi, 12)
        t = []
        t.append(f"/-- boundary {j} (H = {float(hb[j])} km, gradient layer below): ε_{j} = log(P_{i}/P_{j}) + (g/L)·log(T_{i}/T_{i}(H_{j})) -/")
        t.append(f"theorem eps{j}_core : {sci(elo)} ≤ Real.log {lit(pr)} + {lit(c)} * Real.log {lit(tr)} ∧")
        t.append(f"    Real.log {lit(pr)} + {lit(c)} * Real.log {lit(tr)} ≤ {sci(ehi)} := by")
        t.append(f"  have a := log_P{j}")
        t.append(f"  have b := log_T{j}")
        if c >= 0:
            t.append(f"  have b1 := mul_le_mul_of_nonneg_left b.1 (show (0:ℝ) ≤ {lit(c)} by norm_num)")
            t.append(f"  have b2 := mul_le_mul_of_nonneg_left b.2 (show (0:ℝ) ≤ {lit(c)} by norm_num)")
        else:
            t.append(f"  have b1 := mul_le_mul_of_nonpos_left b.1 (show {lit(c)} ≤ (0:ℝ) by norm_num)")
            t.append(f"  have b2 := mul_le_mul_of_nonpos_left b.2 (show {lit(c)} ≤ (0:ℝ) by norm_num)")
        t.append(f"  constructor <;> linarith [a.1, a.2]")
        out.append("\n".join(t))
        kind = 'grad'
    summary.append((j, kind, elo, ehi))
    # bridge
    Ls = "(layers inf)"
    b = []
    b.append(f"/-- boundary {j}: the mismatch of the regenerated table, ε_{j} ∈ [{float(elo):.4e}, {float(ehi):.4e}] -/")
    b.append(f"theorem eps{j} (inf : ℝ) :")
    b.append(f"    {sci(elo)} ≤ Real.log (pressureInLayer {Ls} {i} (nth {Ls}.hb {j}) / nth {Ls}.pb {j}) ∧")
    b.append(f"    Real.log (pressureInLayer {Ls} {i} (nth {Ls}.hb {j}) / nth {Ls}.pb {j}) ≤ {sci(ehi)} := by")
    if kind == 'iso':
        b.append(f"  have hl : nth {Ls}.lm {i} = 0 := by simp [layers, nth]")
        b.append(f"  rw [pressureInLayer_iso _ _ _ hl, log_Piso_div (by simp [layers, nth] <;> norm_num) (by simp [layers, nth] <;> norm_num)]")
        b.append(f"  have e1 : nth {Ls}.pb {i} / nth {Ls}.pb {j} = {lit(pr)} := by simp [layers, nth] <;> norm_num")
        b.append(f"  have e2 : -{Ls}.gmr / nth {Ls}.tb {i} = {lit(-g/tb[i])} := by simp [layers, nth] <;> norm_num")
        b.append(f"  have e3 : nth {Ls}.hb {j} - nth {Ls}.hb {i} = {lit(dH)} := by simp [layers, nth] <;> norm_num")
        b.append(f"  rw [e1, e2, e3]; exact eps{j}_core")
    else:
        b.append(f"  have hl : nth {Ls}.lm {i} ≠ 0 := by simp [layers, nth] <;> norm_num")
        b.append(f"  rw [pressureInLayer_grad _ _ _ hl, log_Pgr_div (by simp [layers, nth] <;> norm_num) (by simp [layers, nth] <;> norm_num)")
        b.append(f"    (by simp [layers, nth] <;> norm_num) (by simp [layers, nth] <;> norm_num)]")
        b.append(f"  have e1 : nth {Ls}.pb {i} / nth {Ls}.pb {j} = {lit(pr)} := by simp [layers, nth] <;> norm_num")
        b.append(f"  have e2 : nth {Ls}.tb {i} / (nth {Ls}.tb {i} + nth {Ls}.lm {i} * (nth {Ls}.hb {j} - nth {Ls}.hb {i})) = {lit(tr)} := by")
        b.append(f"    simp [layers, nth] <;> norm_num")
        b.append(f"  have e3 : {Ls}.gmr / nth {Ls}.lm {i} = {lit(c)} := by simp [layers, nth] <;> norm_num")
        b.append(f"  rw [e1, e2, e3]; exact eps{j}_core")
    bridge.append("\n".join(b))

if __name__ == "__main__":
    if len(sys.argv) > 1 and sys.argv[1] == "--summary":
        print("log 2 in", l2lo, l2hi)
        for s in summary:
            print(f"eps_{s[0]} ({s[1]} layer below) in [{float(s[2]):.6e}, {float(s[3]):.6e}]")
    else:
        print("/-! ### table ratios (generated) -/\n")
        print("\n\n".join(out) + "\n")
        print("/-! ### bridge theorems (generated; paste after `boundaryMismatch_eq`) -/\n")
        print("\n\n".join(bridge) + "\n")
