"""Writes MANIFEST.json from the table below (kept in one place so the manifest is always valid)."""
import json
from pathlib import Path

VERIF = Path(__file__).resolve().parent.parent

NOTE = ("Lean 4.33 kernel; axioms propext/Classical.choice/Quot.sound only (audited each run); theorems are about the "
        "hand-written polymorphic model at the reals/ordered fields; the tie to /repo is this run's correspondence of the "
        "same model at Float (native driver) against the real Python code, plus regeneration of Gen/* data modules; "
        "IEEE rounding and third-party libraries are modelled, not verified.")

CHECKS = {
    "C07": dict(
        text="All clauses of C07 are Lean theorems over the reals about Model.Kin (gamma>=1, speed in (0,1), shower energy, decay length formula/sign/antitone/exponential law, decay altitude = altitude of the explicit point, >=0, monotone in length and angle). The model is tied to taus.py/eas.py by running the real Taus.__call__ and EAS.altDec next to the Float instance of the same model, with the physical constants pinned in the model. That every tau energy reachable from the shipped tables is above the tau mass (so the speed is real) is proved in Props/C18 (shipped_min_tau_energy_v*, reachable_tau_above_mass) and re-checked whenever the tables change.",
        tie="EAS.altDec and Taus.__call__ (its two table look-ups left as inputs) are regenerated from eas.py / taus.py into lean/NssVerif/Gen/Src/C07.lean on every run; C07.src_altDec and C07.src_tausCall prove by rfl, for every Scalar instance (the reals of the theorems and the Float of the driver), that the translated functions are the model's altDec and (tauBeta, tauLorentz, showerEnergy); at Float the translated source is bit-identical to the real Taus.__call__ on every case and within 2 ulp (libm log/sin) of EAS.altDec.",
        ref="4 C07", technique="Lean 4 theorems over R (Mathlib) on a hand-written model + Float-instance differential correspondence against the real code"),
}

CHECKS.update({
    "C04": dict(
        text="Proved in Lean for all inputs: on every table meeting CdfTableOK the sampler returns z with F(z)=u on the unique bracket (plateaux included), z inside the tabulated range (<=1, so E_tau<=E_nu), non-decreasing in u; the wrapper clamps low angles to the minimum-angle distribution, gives 2^-23*E_nu above the maximum angle and rejects out-of-range energies. Each of the three shipped tables is shown to meet CdfTableOK by kernel evaluation (decide +kernel, SWAR tests lifted by lemma) over Gen/Tab*.lean regenerated from /repo every run. The model is tied to cdf.py/interp.py/taus.py by running grid_cdf_sampler and Taus.tau_energy (explicit u and internal generator) against the same model at Float. Observed only: scipy interpn = the bilinear model; explicit-u = internal-generator equality (differential on the real code).",
        ref="4 C04", technique="Lean 4 theorems (inverse transform on monotone rows, convexity of bilinear rows) + kernel-checked data theorems over regenerated tables + Float-model correspondence"),
    "C05": dict(
        text="Proved in Lean for all inputs and all call histories: the exit-probability state machine (table floored in place by each call) returns, for every history of earlier calls, the value a fresh object returns (floor idempotent); inside the table the value is 10^(bilinear of log10 of the floored table), lies between any bounds of the four surrounding floored nodes, is in (0,1] (uses the kernel-checked fact that all shipped entries are in [0,1]), reproduces floored nodes exactly, clamps low angles, returns the 2^-23 floor above the maximum angle and rejects out-of-range energies. Tied to taus.py by running Taus.tau_exit_prob on fresh objects and after random histories against the model at Float and against the raw HDF5 content. Observed only: scipy RegularGridInterpolator = the bilinear model.",
        ref="4 C05", technique="Lean 4 theorems on a state-machine model (history independence by induction) + kernel-checked data theorems + Float-model correspondence"),
    "C18": dict(
        text="Proved in Lean: every node of every shipped table meets the samplers' preconditions (axes strictly increasing, CDF rows non-decreasing from 0 to 1 within 2^-50, exit probabilities <= 1) by kernel evaluation over the regenerated tables; slicing at an arbitrary coordinate is the linear blend of the neighbouring sub-grids and exact at nodes; the mask/shift/xor row interpolation equals ordinary piecewise-linear interpolation on every non-decreasing row with plateaux. 'Smallest reachable tau energy above the tau mass' is proved for all three versions: every energy the sampler can return for any in-range neutrino energy and angle is >= 1000 GeV > m_tau (kernel-checked zero prefixes of the CDF rows and slab bounds, lifted through the bilinear interpolation and the inverse transform). PARTIAL: the HDF5/FITS round trip is third-party I/O and is explored on the real NssGrid.write/read (random grids, 1-4 dims, dtypes, names), not proved.",
        ref="4 C18", technique="Lean 4 kernel-checked data theorems over regenerated tables + theorems on the interpolation model + exploration of the real file I/O"),
})

CHECKS["C11"] = dict(
    text="Proved in Lean for every batch, mask pattern, permutation and split point: the mask-and-scatter idiom is an element-wise conditional; the batched tau-energy stage exactly as coded (three masks, sampler calls on selected sub-batches, 8192-element iterator chunks, scatter, scaling) and the batched exit-probability stage (in-place floor, masks, sub-batches, scatter, 10**) equal their per-event functions event by event for any scalar type; the tau-energy batch fails as a whole when an event fails; the batch of the masked row interpolation (flat np.where index lists, row-major mask selection) is row-aligned on every batch of non-decreasing rows (C18.vecInterp_batch_aligned); and per-event maps commute with permutations and splits; repeated calls: the only stateful stage (exit probability) is history independent (C05). Observed on the real code for all ten stages (geometry both modes, spectra, tau energy/exit probability, decay altitude, optical, radio, SNR) with random numbers fixed: permutation, split points (incl. around 8192), three repeated calls, single-event batches, and byte-comparison of every input array (found F6, fixed). PARTIAL: for stages other than tau energy the 'stage = per-event map' premise is observed, not proved.",
    ref="4 C11", technique="Lean 4 list theorems (scatter/select, chunking, batch = pointwise) + batch-model correspondence + metamorphic exploration of every stage of the real code")

CHECKS["C14"] = dict(
    text="Proved in Lean about the writer state machine that models compute()'s fixed stage sequence, for every flag combination and survivor count: every column has one entry per surviving trajectory, the exact ordered column set, the four integral keywords of each enabled channel, an empty but valid table for zero survivors, and the structural reason for channel isolation (the shower and integral stages draw nothing from the global generator and every stage a channel depends on precedes the other channel's stages, so stream offsets and upstream columns do not depend on the other flag). PARTIAL: bit-identity across dask schedulers, the values in the columns and channel isolation of the real run are explored on the real code: compute() over the configuration cross product under synchronous/threads/processes/PRNG-ordered exploring schedulers compared bit for bit, other-channel-off comparisons, structure against the model, cross-stage consistency relations evaluated by the Lean driver on the table's columns, zero-survivor runs, and measured per-stage generator draws against the model.",
    ref="4 C14", technique="Lean 4 theorems on a writer/stream state-machine model + exploration of the real compute() under several schedulers incl. an order-exploring one")

import glob
for _f in sorted(glob.glob(str(VERIF / "harness" / "manifest_entries" / "*.json"))):
    CHECKS.update(json.load(open(_f)))

# tie paragraphs (and one wording correction) for the entries that live in the CHECKS table above
CHECKS["C07"]["tie"] = CHECKS["C07"]["tie"] + " " + json.load(open(VERIF / "harness" / "manifest_tie_add.json"))["C07"]
CHECKS["C14"]["tie"] = json.load(open(VERIF / "harness" / "manifest_tie_add.json"))["C14_tie"]
CHECKS["C14"]["tie_tool"] = "harness/orchtrans.py, an AST walker over compute(), its stage classes and the result-store decorators"
for _k, _v in json.load(open(VERIF / "harness" / "manifest_ties_taus.json")).items():
    CHECKS[_k]["tie"] = _v["tie"]
    if "text_replace" in _v:
        CHECKS[_k]["text"] = CHECKS[_k]["text"].replace(*_v["text_replace"])

NOT_APPLICABLE = {}

ALL = [f"C{i:02d}" for i in range(1, 21)]


def main():
    checks = []
    for pid in ALL:
        if pid not in CHECKS:
            continue
        c = CHECKS[pid]
        checks.append({
            "property_id": pid,
            "quick_cmd": f"./check {pid} quick",
            "thorough_cmd": f"./check {pid} thorough",
            "evidence_file": f"evidence/{pid}.json",
            "replay_cmd_template": f"./check {pid} --replay {{path}}",
            "engine": "lean-model",
            "level_claimed": {"category": "proof", "text": c["text"] + ((" SOURCE TIE: " + c["tie"]) if c.get("tie") else ""),
                              "design_ref": "DESIGN.md section " + c["ref"] + (" and section 8.7 (source tie)" if c.get("tie") else "")},
            "level_note": c.get("note", NOTE),
            "technique": c["technique"] + (" + Lean definitions regenerated from the Python source on every run by a translator (" + c.get("tie_tool", "harness/pytrans.py") + ") "
                                           "and proved equal to the model (bridging theorems src_*), run at Float next to the real functions" if c.get("tie") else ""),
        })
    na = [{"property_id": p, "reason": NOT_APPLICABLE.get(p, "check not built yet in this session (work in progress; see DESIGN.md section 7 for the build order)")}
          for p in ALL if p not in CHECKS]
    man = {
        "version": 1,
        "setup_cmd": "./setup.sh",
        "hooks": {
            "guard": "NUSPACESIM_VERIF_DTYPE",
            "enable": "environment variable NUSPACESIM_VERIF_DTYPE=float64 set by the C06 harness for its double-precision runs; unset = production behaviour",
            "baseline_off_cmd": "cd /repo && env -u NUSPACESIM_VERIF_DTYPE /venv/bin/python -m pytest -ra -q -p no:cacheprovider --timeout=900 --continue-on-collection-errors",
            "source_commits": ["0279138"],
            "add_only": True,
        },
        "engines": [{
            "name": "lean-model", "path": "lean/",
            "serves_properties": [c["property_id"] for c in checks],
            "kind_free_text": "Lean 4 model (import-free, polymorphic over a Scalar class) + property theorems (Mathlib modules imported singly) + native Float driver used by the Python correspondence harness",
        }],
        "checks": checks,
        "not_applicable": na,
        "notes": "See DESIGN.md. Exit codes: 0 held, 1 violation (VIOLATION line), 2 infrastructure failure.",
    }
    (VERIF / "MANIFEST.json").write_text(json.dumps(man, indent=1) + "\n")


if __name__ == "__main__":
    main()
