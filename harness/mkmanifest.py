"""Writes MANIFEST.json from the table below (kept in one place so the manifest is always valid)."""
import json
from pathlib import Path

VERIF = Path(__file__).resolve().parent.parent

NOTE = ("Lean 4.33 kernel; axioms propext/Classical.choice/Quot.sound only (audited each run); theorems are about the "
        "hand-written polymorphic model at the reals/ordered fields; the tie to /repo is this run's correspondence of the "
        "same model at Float (native driver) against the real Python code, plus regeneration of Gen/* data modules; "
        "IEEE rounding and third-party libraries are modelled, not verified.")

CHECKS = {
    "C07": dict(
        text="All clauses of C07 are Lean theorems over the reals about Model.Kin (gamma>=1, speed in (0,1), shower energy, decay length formula/sign/antitone/exponential law, decay altitude = altitude of the explicit point, >=0, monotone in length and angle). The model is tied to taus.py/eas.py by running the real Taus.__call__ and EAS.altDec next to the Float instance of the same model, with the physical constants pinned in the model.",
        ref="4 C07", technique="Lean 4 theorems over R (Mathlib) on a hand-written model + Float-instance differential correspondence against the real code"),
}

NOT_APPLICABLE = {}

ALL = [f"C{i:02d}" for i in range(1, 21)]


def main():
    checks = []
    for pid in ALL:
        if pid not in CHECKS:
            continue
        c = CHECKS[pid]
        checks.append({
            "property_id": pid,
            "quick_cmd": f"./check {pid} quick",
            "thorough_cmd": f"./check {pid} thorough",
            "evidence_file": f"evidence/{pid}.json",
            "replay_cmd_template": f"./check {pid} --replay {{path}}",
            "engine": "lean-model",
            "level_claimed": {"category": "proof", "text": c["text"], "design_ref": "DESIGN.md section " + c["ref"]},
            "level_note": c.get("note", NOTE),
            "technique": c["technique"],
        })
    na = [{"property_id": p, "reason": NOT_APPLICABLE.get(p, "check not built yet in this session (work in progress; see DESIGN.md section 7 for the build order)")}
          for p in ALL if p not in CHECKS]
    man = {
        "version": 1,
        "setup_cmd": "./setup.sh",
        "hooks": {
            "guard": "NUSPACESIM_VERIF_DTYPE",
            "enable": "environment variable NUSPACESIM_VERIF_DTYPE=float64 set by the C06 harness for its double-precision runs; unset = production behaviour",
            "baseline_off_cmd": "cd /repo && env -u NUSPACESIM_VERIF_DTYPE /venv/bin/python -m pytest -ra -q -p no:cacheprovider --timeout=900 --continue-on-collection-errors",
            "source_commits": [],
            "add_only": True,
        },
        "engines": [{
            "name": "lean-model", "path": "lean/",
            "serves_properties": [c["property_id"] for c in checks],
            "kind_free_text": "Lean 4 model (import-free, polymorphic over a Scalar class) + property theorems (Mathlib modules imported singly) + native Float driver used by the Python correspondence harness",
        }],
        "checks": checks,
        "not_applicable": na,
        "notes": "See DESIGN.md. Exit codes: 0 held, 1 violation (VIOLATION line), 2 infrastructure failure.",
    }
    (VERIF / "MANIFEST.json").write_text(json.dumps(man, indent=1) + "\n")


if __name__ == "__main__":
    main()
