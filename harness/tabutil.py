"""Helpers shared by the table-based checks (C04, C05, C18, C11, C07)."""
import warnings

import numpy as np

warnings.filterwarnings("ignore")
from common import *  # noqa

VERSIONS = ("1", "2", "3")


def make_taus(version: str):
    import nuspacesim as nss
    from nuspacesim.simulation.taus.taus import Taus
    cfg = nss.NssConfig()
    cfg.simulation.tau_shower.table_version = version
    return Taus(cfg)


def regen_tables():
    import extract
    return extract.gen_all_tables()


def check_translator(ctx, taus_by_version):
    """Round trip of the translator: checksums of the tables compiled into the driver vs the arrays the live package loads."""
    for v, tau in taus_by_version.items():
        got = [h2f(x) for x in run_driver([f"tabsum {v}"])[0]]
        g, p = tau.tau_cdf_grid, tau.pexit_grid
        want = [float(np.add.reduce(np.asarray(g.data, dtype=np.float64).ravel())), float(np.sum(g.axes[0])), float(np.sum(g.axes[1])),
                float(np.sum(g.axes[2])), float(np.add.reduce(np.asarray(p.data, dtype=np.float64).ravel())),
                float(g.data.shape[0]), float(p.data.shape[0])]
        ctx.case(("tabsum", v), {"op": "tabsum", "version": v, "driver": got, "package": want})
        if not all(close(a, b, 1e-9) for a, b in zip(got, want)):
            ctx.disagree("translator.tables", {"version": v, "driver": got, "package": want})
