"""Functions of /repo translated into lean/NssVerif/Gen/Src/C12.lean (see harness/srctie.py, harness/pytrans.py).

`spectra.py` dispatches on the type of the configured spectrum object: each function is translated once per spectrum kind,
with a LIVE `Simulation.PowerSpectrum` / `Simulation.MonoSpectrum` object as the concrete `spectra` parameter (so the
`isinstance` dispatch is evaluated by the working tree's own classes) and the object's attributes symbolic.  The uniform
draw of `energy_spectra` is an opaque call: its result is the input `u`.
"""
import pytrans

MOD = "nuspacesim.simulation.spectra.spectra"


def specs():
    from nuspacesim.config import Simulation
    power = Simulation.PowerSpectrum()
    mono = Simulation.MonoSpectrum()
    pw = {"spectra.index": "index", "spectra.lower_bound": "lo", "spectra.upper_bound": "hi"}
    mo = {"spectra.log_nu_energy": "logE"}
    return [
        pytrans.FnSpec(MOD, "energy_spectra", "energySpectraPower", sym_attrs=dict(pw), concrete={"N": 1, "spectra": power},
                       opaque={"np.random.uniform": "u"},
                       doc="one sampled log-energy of a power-law spectrum from the uniform number `u` (the `np.random.uniform` draw)"),
        pytrans.FnSpec(MOD, "spec_norm", "specNormPower", sym_attrs=dict(pw), concrete={"spectra": power},
                       doc="normalisation factor of a power-law spectrum"),
        pytrans.FnSpec(MOD, "sum_spec_weights", "sumSpecWeightsPower", sym_attrs=dict(pw), concrete={"spectra": power},
                       doc="weight sum of a power-law spectrum"),
        pytrans.FnSpec(MOD, "energy_spectra", "energySpectraMono", sym_attrs=dict(mo), concrete={"N": 1, "spectra": mono},
                       doc="the log-energy every event of a mono-energetic spectrum gets (element-wise view of `np.full`)"),
        pytrans.FnSpec(MOD, "spec_norm", "specNormMono", concrete={"spectra": mono},
                       doc="normalisation factor of a mono-energetic spectrum"),
        pytrans.FnSpec(MOD, "sum_spec_weights", "sumSpecWeightsMono", concrete={"spectra": mono},
                       doc="weight sum of a mono-energetic spectrum"),
    ]
