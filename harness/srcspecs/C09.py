"""Functions of /repo translated into lean/NssVerif/Gen/Src/C09.lean (see harness/srctie.py, harness/pytrans.py).

`altitude_from_pressure_map_v0(map)` returns a closure `f(lat, long)`: the enclosing function is executed with the shipped
month-1 map as its concrete argument (only its SHAPE enters: the two `np.linspace` grids are read as idealised grids), the
closure is translated.  The read `map[i, j]` of the FITS data is opaque (input `pressure`); the indices `i`, `j` are returned
in front of the result so that the cell-index arithmetic is part of the translated function; the call of
`atm.us_std_atm_altitude_from_pressure` (the eas_optical copy, property C19) is translated in place.

Not translated: `mono_altitude(altitude).f` returns `np.single(altitude)` — the rounding to single precision has no counterpart
in `Scalar` (the hand-written model ignores it as well; the harness feeds the model the already rounded altitude).
"""
import pytrans

MOD = "nuspacesim.simulation.atmosphere.clouds"


def shipped_map():
    from nuspacesim.config import Simulation
    from nuspacesim.simulation.atmosphere import clouds
    return clouds.extract_fits_cloud_pressure_map_v0(Simulation.PressureMapCloud(month=1))


def specs():
    mp = shipped_map()
    return [
        pytrans.FnSpec(MOD, "altitude_from_pressure_map_v0.f", "mapAltitude", sym_params={"lat": "lat", "long": "long"},
                       outer={"map": mp}, opaque_reads={"map": "pressure"}, also_return=("i", "j"), ideal_linspace=True,
                       inline=("atm.us_std_atm_altitude_from_pressure",), inf_name="inf", exact_consts=True,
                       doc=f"(row i, column j, cloud-top altitude) of the {mp.shape[0]} x {mp.shape[1]} pressure map at the site (lat, long) in radians; "
                           "`pressure` stands for the map entry read at (i, j)"),
    ]
