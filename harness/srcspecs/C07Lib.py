"""Library functions of /repo translated into lean/NssVerif/Gen/Src/C07Lib.lean (see harness/srctie.py, harness/pytrans.py):
the geometry of the straight line of property C07 — `shower_properties.path_length_tau_atm` / `altitude_along_path_length`
and the `*_along_prop_axis` family of `detector_geometry`.  No stage calls them; the theorems of `Props/C07Lib.lean` show
that they describe the very line whose end point `EAS.altDec` computes."""
import pytrans

SP = "nuspacesim.simulation.eas_optical.shower_properties"
DG = "nuspacesim.simulation.eas_optical.detector_geometry"


def specs():
    return [
        pytrans.FnSpec(SP, "path_length_tau_atm", "pathLengthTauAtm",
                       sym_params={"z": "z", "beta_tr": "betaTr", "Re": "re"},
                       doc="path length from the surface to altitude z along the line leaving at elevation beta_tr"),
        pytrans.FnSpec(SP, "altitude_along_path_length", "altitudeAlongPathLength",
                       sym_params={"s": "s", "beta_tr": "betaTr", "Re": "re"},
                       doc="altitude of the point at path length s along that line"),
        pytrans.FnSpec(DG, "length_along_prop_axis", "lengthAlongPropAxis",
                       sym_params={"z_start": "zStart", "z_stop": "zStop", "beta_tr": "betaTr", "Re": "re"}),
        pytrans.FnSpec(DG, "altitude_along_prop_axis", "altitudeAlongPropAxis",
                       sym_params={"L": "l", "z_start": "zStart", "beta_tr": "betaTr", "Re": "re"}),
        pytrans.FnSpec(DG, "deriv_altitude_along_prop_axis", "derivAltitudeAlongPropAxis",
                       sym_params={"L": "l", "z_start": "zStart", "beta_tr": "betaTr", "Re": "re"}),
        pytrans.FnSpec(DG, "gain_in_altitude_along_prop_axis", "gainInAltitudeAlongPropAxis",
                       sym_params={"L": "l", "z_start": "zStart", "beta_tr": "betaTr", "Re": "re"},
                       doc="`altitude_along_prop_axis` is inlined from its own source"),
    ]
