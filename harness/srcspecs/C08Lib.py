"""Library functions of /repo translated into lean/NssVerif/Gen/Src/C08Lib.lean (see harness/srctie.py, harness/pytrans.py):
the closed-form shower and atmosphere functions of `shower_properties` and `atmospheric_models` (viewing / propagation angle
and the distance to the detector are translated under C08 itself).

Left out because the translator cannot read them as they are (each would make `regen` fail with `Unsupported`):
`slant_depth_trig_approx`, `slant_depth_trig_behind_ahead` (a nested `def` that is called; they also call `us_std_atm_density`),
`us_std_atm_density` (`np.searchsorted(.., side="right") - 1`: an index that can be -1), `polyrho` (a `numpy.polynomial.Polynomial` object is called), and the functions with
root finders (`shower_age_of_greisen_particle_count`, `altitude_at_shower_age`)."""
import pytrans

SP = "nuspacesim.simulation.eas_optical.shower_properties"
AM = "nuspacesim.simulation.eas_optical.atmospheric_models"


def specs():
    return [
        pytrans.FnSpec(SP, "index_of_refraction_air", "indexOfRefractionAir", sym_params={"X_v": "xv"}),
        pytrans.FnSpec(SP, "rad_len_atm_depth", "radLenAtmDepth", sym_params={"x": "x", "L0recip": "l0recip"}),
        pytrans.FnSpec(SP, "shower_age", "showerAge", sym_params={"T": "t"}),
        pytrans.FnSpec(SP, "greisen_particle_count", "greisenParticleCount", sym_params={"T": "t", "s": "s"}),
        pytrans.FnSpec(SP, "gaisser_hillas_particle_count", "gaisserHillasParticleCount",
                       sym_params={"X": "x", "Nmax": "nmax", "X0": "x0", "Xmax": "xmax", "invlam": "invlam"}),
        pytrans.FnSpec(SP, "track_length", "trackLength", sym_params={"s": "s", "E": "e"}),
        pytrans.FnSpec(SP, "hillas_dndu", "hillasDndu", sym_params={"energy": "energy", "theta": "theta", "s": "s"}),
        pytrans.FnSpec(AM, "cummings_atmospheric_density", "cummingsAtmosphericDensity", sym_params={"z": "z"},
                       doc="density (g/cm^3) of the four-layer exponential parametrisation; `np.searchsorted` on the concrete bin edges "
                           "is `Np.searchsortedLeft` on the list of their literals"),
    ]
