"""Functions of /repo translated into lean/NssVerif/Gen/Src/C18.lean (see harness/srctie.py, harness/pytrans.py).

`vec_1d_interp(xs, ys, x)`: the mask / shift / xor bracketing (`hi_msk … lo`) is integer and Boolean array work over the node
axis (np.where, fancy indexing) and is NOT translated — it is the hand-written model `Model.Interp.hiM/loM/trueIdx`, tied to
the code by the differential runs; the four selections it produces (`y0 = ys[lo]`, `x0 = xs[lo_m]`, `y1 = ys[hi]`,
`x1 = xs[hi_m]`: the bracket's nodes for the row) are inputs, and the final two-point blend is translated.

Not translated: `grid_slice_interp` (a call of scipy's `interp1d` and list comprehensions over the axes: nothing of its own
arithmetic is in the source), `left_shift` / `right_shift` (slice stores into a Boolean array).
"""
import pytrans

BRACKET_LOCALS = {"hi_msk": None, "shf_hi": None, "hi_m": None, "hi": None, "lo_msk": None, "shf_lo": None, "lo_m": None, "lo": None,
                  "y0": "y0", "x0": "x0", "y1": "y1", "x1": "x1"}


def specs():
    return [
        pytrans.FnSpec("nuspacesim.utils.interp", "vec_1d_interp", "vec1dInterp", sym_params={"x": "x"},
                       concrete={"xs": None, "ys": None}, opaque_locals=dict(BRACKET_LOCALS),
                       doc="the final two-point blend of `vec_1d_interp` for one row: (x0, y0), (x1, y1) are the nodes of the row's "
                           "bracket as selected by the (untranslated) mask / shift / xor code"),
    ]
