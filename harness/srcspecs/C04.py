"""Functions of /repo translated into lean/NssVerif/Gen/Src/C04.lean (see harness/srctie.py, harness/pytrans.py).

`Taus.tau_energy(betas, log_e_nu, u)` for ONE event: `self.tau_cdf_grid['beta_rad']` is the input `betaAxis : List α`; the
sampler object `grid_cdf_sampler(self.tau_cdf_grid)` is an opaque constructor; its two calls are opaque, one input per call
site — `zValid` (in-table angle) and `zLow` (below the minimum angle: `np.full(.., beta_min)`) — and the points (log_e_nu, beta,
u) at which the sampler is asked are exported (`zValidArg0..2`, `zLowArg0..2`).

`grid_cdf_sampler(grid).sample(log_e_nu, beta, u)` (a closure; `grid` = the shipped version-3 table, of which nothing but the
identity enters): the body of the buffered chunk loop for one event — `interpn` is opaque (input `cdfRow`, its query point is
exported as `cdfRowArg0/1`), `vec_1d_interp` is translated in place with the bracket selections as inputs (see srcspecs/C18.py).
`sampleChunk` is the explicit-u path, `sampleChunkDraw` the path `u=None`, where the uniform draw `np.random.uniform` is the
opaque input `uDraw`.
"""
import pytrans
from srcspecs.C18 import BRACKET_LOCALS


def taus_object(version=None):
    import nuspacesim as nss
    from nuspacesim.simulation.taus.taus import Taus
    cfg = nss.NssConfig()
    if version is not None:
        cfg.simulation.tau_shower.table_version = version
    return Taus(cfg)


def specs():
    tau = taus_object()
    blend = pytrans.FnSpec("nuspacesim.utils.interp", "vec_1d_interp", "blend", opaque_locals=dict(BRACKET_LOCALS))
    chunk = dict(outer={"grid": tau.tau_cdf_grid}, export_args={"interpn": None}, inline={"vec_1d_interp": blend})
    return [
        pytrans.FnSpec("nuspacesim.simulation.taus.taus", "Taus.tau_energy", "tauEnergy",
                       sym_params={"betas": "beta", "log_e_nu": "logENu", "u": "u"},
                       sym_lists={"self.tau_cdf_grid['beta_rad']": "betaAxis"},
                       opaque={"grid_cdf_sampler": (), "tau_cdf_sample": ["zValid", "zLow"]},
                       export_args={"tau_cdf_sample": None}, exact_consts=True, self_obj=tau,
                       doc="one event (beta, logENu, u) of `Taus.tau_energy`: `zValid` / `zLow` = the sampled energy fraction the sampler "
                           "returns for the exported query (logENu, beta or beta_min, u); `ret` = the tau energy"),
        pytrans.FnSpec("nuspacesim.utils.cdf", "grid_cdf_sampler.sample", "sampleChunk",
                       sym_params={"log_e_nu": "logENu", "beta": "beta", "u": "u"}, opaque={"interpn": "cdfRow"}, **chunk,
                       doc="one event of the chunk loop of `grid_cdf_sampler(grid)(log_e_nu, beta, u)`: `cdfRow` stands for the CDF row "
                           "`interpn` returns at the exported point; (x0, y0), (x1, y1) = the bracket of u in that row"),
        pytrans.FnSpec("nuspacesim.utils.cdf", "grid_cdf_sampler.sample", "sampleChunkDraw",
                       sym_params={"log_e_nu": "logENu", "beta": "beta"}, concrete={"u": None},
                       opaque={"interpn": "cdfRow", "np.random.uniform": "uDraw"}, **chunk,
                       doc="the same with `u=None`: `uDraw` is the event's number from the chunk's `np.random.uniform` draw"),
    ]
