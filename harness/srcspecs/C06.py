"""Functions of /repo translated into lean/NssVerif/Gen/Src/C06.lean (see harness/srctie.py, harness/pytrans.py).

All are methods of ONE live `CphotAng` built under the guarded dtype hook (binary64; the translator refuses `dtype=float32`
arithmetic) with the zsteps shim installed, as in harness/cphot_common.py.  Methods that work on per-step (and per-wavelength)
arrays with elementwise arithmetic are translated per element; the scalars held by the instance that the model keeps in
`Consts` are symbolic inputs (the bridging theorems instantiate them with the fields of `c`)."""
import pytrans

M = "nuspacesim.simulation.eas_optical.cphotang"


def specs():
    import cphot_common as cc
    import zshim
    zshim.install()
    k = cc.make_kernel(525.0, True)

    def S(qual, name, **kw):
        return pytrans.FnSpec(M, f"CphotAng.{qual}", name, self_obj=k, **kw)
    geo = {"self.RadE": "radE", "self.zmax": "zmax"}
    return [
        S("theta_view", "thetaView", sym_params={"ThetProp": "thetProp"}, sym_attrs=geo),
        S("theta_prop", "thetaProp", sym_params={"z": "z", "sinThetView": "sinThetView"}, sym_attrs=geo),
        S("grammage", "grammage", sym_params={"z": "z"},
          doc="one altitude: (X, rho); `XUninit`/`rhoUninit` stand for the uninitialised memory of `np.empty_like`"),
        S("slant_depth", "slantVal", fragment=("delgram_vals", "delgram_vals"), sym_locals={"rhos": "rho"},
          concrete={"alt": 0.0, "sinThetView": 0.0},
          sym_attrs={"self.dL": "dL"}, outputs=["delgram_vals"],
          doc="slant-depth increment of one step"),
        S("valid_arrays", "validArrays",
          sym_params={"zsave": "zsave", "delgram": "delgram", "gramsum": "gramsum", "gramz": "gramz", "ZonZ": "zonZ",
                      "ThetPrpA": "thetPrpA", "Eshow": "eshow"},
          sym_attrs={"self.zmax": "zmax", "self.ecrit": "ecrit"},
          doc="one altitude step: (kept?, zs, delgram, ZonZ, ThetPrpA, AirN, s, RN, e2hill)"),
        S("e0", "e0", sym_params={"s": "s"}, concrete={"shape": ()}),
        S("cherenkov_threshold_angle", "cherenkovThresholdAngle", sym_params={"AirN": "airN"}),
        S("tracklen", "tracklen", sym_params={"E0": "e0", "eCthres": "eCthres", "s": "s"}),
        S("d_to_det", "dToDet", sym_params={"ThetView": "thetView", "ThetPrpA": "thetPrpA", "zs": "zs"},
          sym_attrs={"self.pi": "piC", "self.RadE": "radE"}),
        S("sphoton_yeild", "sphotonYeild",
          sym_params={"thetaC": "thetaC", "RN": "rN", "delgram": "delgram", "ZonZ": "zonZ", "z": "z", "ThetPrpA": "thetPrpA"},
          sym_attrs={"self.PYieldCoeff": "pYieldCoeff", "self.wmean": "wmean", "self.Okappa": "okappa"},
          opaque={"self.aerosol_model": "aTrans"},
          doc="one (altitude step, wavelength bin) element; `aTrans` is the element of `aerosol_model`'s result"),
        S("cherenkov_area", "cherenkovArea", sym_params={"AveCangI": "aveCangI", "DistStep": "distAtMax"},
          concrete={"izRNmax": pytrans.INDEX}, sym_attrs={"self.pi": "piC"},
          doc="`distAtMax` is `DistStep[izRNmax]`"),
        S("run", "runHead", fragment=(None, "sinThetView"),
          sym_params={"betaE": "betaE", "alt": "alt", "Eshow100PeV": "eshow100PeV"}, concrete={"lat": 0.0, "long": 0.0},
          sym_attrs=geo, outputs=["betaE", "Eshow", "ThetView", "sinThetView"],
          doc="the straight-line head of `run`: the 1-degree clamp, the energy in GeV, the viewing angle and its sine"),
        S("run", "runScaled",
          sym_params={"betaE": "betaE", "alt": "alt", "Eshow100PeV": "eshow100PeV"},
          concrete={"lat": 0.0, "long": 0.0, "cloudf": None},
          sym_attrs={"self.orbit_height": "orbitHeight", "self.RadE": "radE", "self.zmax": "zmax",
                     "self.detector_altitude": "detAlt"},
          skip=("zs", "CherArea"),
          sym_locals={"photsum": "photsum", "AveCangI": "aveCangI", "CangsigI": "cangsigI", "CherArea": "cherArea"},
          doc="head and tail of `run` on the path that reaches the final `return` (the step loop's sums are inputs)"),
    ]
