"""Functions of /repo translated into lean/NssVerif/Gen/Src/C06.lean (see harness/srctie.py, harness/pytrans.py).

All are methods of ONE live `CphotAng` built under the guarded dtype hook (binary64; the translator refuses `dtype=float32`
arithmetic) with the zsteps shim installed, as in harness/cphot_common.py.  Methods that work on per-step (and per-wavelength)
arrays with elementwise arithmetic are translated per element; the scalars held by the instance that the model keeps in
`Consts` are symbolic inputs (the bridging theorems instantiate them with the fields of `c`)."""
import cpptrans
import pytrans

M = "nuspacesim.simulation.eas_optical.cphotang"


def specs():
    import cphot_common as cc
    import zshim
    zshim.install()
    k = cc.make_kernel(525.0, True)

    def S(qual, name, **kw):
        return pytrans.FnSpec(M, f"CphotAng.{qual}", name, self_obj=k, **kw)
    geo = {"self.RadE": "radE", "self.zmax": "zmax"}
    return [
        S("theta_view", "thetaView", sym_params={"ThetProp": "thetProp"}, sym_attrs=geo),
        S("theta_prop", "thetaProp", sym_params={"z": "z", "sinThetView": "sinThetView"}, sym_attrs=geo),
        S("grammage", "grammage", sym_params={"z": "z"},
          doc="one altitude: (X, rho); `XUninit`/`rhoUninit` stand for the uninitialised memory of `np.empty_like`"),
        S("slant_depth", "slantVal", fragment=("delgram_vals", "delgram_vals"), sym_locals={"rhos": "rho"},
          concrete={"alt": 0.0, "sinThetView": 0.0},
          sym_attrs={"self.dL": "dL"}, outputs=["delgram_vals"],
          doc="slant-depth increment of one step"),
        S("valid_arrays", "validArrays",
          sym_params={"zsave": "zsave", "delgram": "delgram", "gramsum": "gramsum", "gramz": "gramz", "ZonZ": "zonZ",
                      "ThetPrpA": "thetPrpA", "Eshow": "eshow"},
          sym_attrs={"self.zmax": "zmax", "self.ecrit": "ecrit"},
          doc="one altitude step: (kept?, zs, delgram, ZonZ, ThetPrpA, AirN, s, RN, e2hill)"),
        S("e0", "e0", sym_params={"s": "s"}, concrete={"shape": ()}),
        S("cherenkov_threshold_angle", "cherenkovThresholdAngle", sym_params={"AirN": "airN"}),
        S("tracklen", "tracklen", sym_params={"E0": "e0", "eCthres": "eCthres", "s": "s"}),
        S("d_to_det", "dToDet", sym_params={"ThetView": "thetView", "ThetPrpA": "thetPrpA", "zs": "zs"},
          sym_attrs={"self.pi": "piC", "self.RadE": "radE"}),
        S("sphoton_yeild", "sphotonYeild",
          sym_params={"thetaC": "thetaC", "RN": "rN", "delgram": "delgram", "ZonZ": "zonZ", "z": "z", "ThetPrpA": "thetPrpA"},
          sym_attrs={"self.PYieldCoeff": "pYieldCoeff", "self.wmean": "wmean", "self.Okappa": "okappa"},
          opaque={"self.aerosol_model": "aTrans"},
          doc="one (altitude step, wavelength bin) element; `aTrans` is the element of `aerosol_model`'s result"),
        S("cherenkov_area", "cherenkovArea", sym_params={"AveCangI": "aveCangI", "DistStep": "distAtMax"},
          concrete={"izRNmax": pytrans.INDEX}, sym_attrs={"self.pi": "piC"},
          doc="`distAtMax` is `DistStep[izRNmax]`"),
        # ---- the body of `run` between the translated head and tail (per element; reductions split, shifted views as inputs)
        S("ozone_losses", "ozoneLosses", sym_params={"z": "z"},
          sym_lists={"self.OzZeta": "ozZeta", "self.OzDsum": "ozDsum", "self.OzDepth": "ozDepth"},
          doc="one altitude: total ozone above it; the three tables are inputs; `TotZonUninit` = uninitialised memory of `np.empty_like`"),
        S("slant_depth", "zonZVal", fragment=("ZonZ_vals", "ZonZ_vals"), concrete={"alt": 0.0, "sinThetView": 0.0},
          sym_views={"TotZons[:-1]": "totLo", "TotZons[1:]": "totHi"}, sym_locals={"delzs": "delz"},
          sym_attrs={"self.dL": "dL"}, outputs=["ZonZ_vals"],
          doc="ozone slant increment of one step: `totLo`/`totHi` are the ozone columns at the foot and the middle of the step "
              "(`TotZons[:-1]`, `TotZons[1:]` with `TotZons = ozone_losses(insert(zsave, 0, alt))`)"),
        S("aerosol_model", "aerosolModel", sym_params={"z": "z", "ThetPrpA": "thetPrpA"},
          sym_attrs={"self.aBetaF": "aBetaF", "self.pi": "piC"},
          sym_lists={"self.aOD55": "aOD55", "self.dfaOD55": "dfaOD55"},
          doc="one (segment, wavelength bin) element of the aerosol transmission; `aBetaF` is the bin's entry, the two optical-depth "
              "tables are inputs"),
        S("photon_sum", "photonSumLimits", fragment=("sigval", "jlim"),
          sym_params={"SPYield": "spy", "DistStep": "distStep", "thetaC": "thetaC"},
          concrete={"e2hill": 0.0, "eCthres": 0.0, "Tfrac": 0.0, "E0": 0.0, "s": 0.0, "Eshow": 0.0},
          sym_attrs={"self.hist_bin_size": "histBin"}, outputs=["sigval", "CradLim", "jlim"],
          doc="`photon_sum`: the yield per histogram area (one (segment, wavelength) element) and the ring limit of one segment"),
        S("photon_sum", "photonSumAngles", fragment=("athetaj", "sthetaj"),
          sym_params={"DistStep": "distStep"},
          concrete={"SPYield": 0.0, "thetaC": 0.0, "e2hill": 0.0, "eCthres": 0.0, "Tfrac": 0.0, "E0": 0.0, "s": 0.0, "Eshow": 0.0},
          sym_locals={"jjstep": "j"}, sym_views={"jjstep[:, 1:]": "jHi"}, outputs=["athetaj", "sthetaj"],
          doc="`photon_sum`, one (segment, ring) element: `j` is the ring radius `jjstep`, `jHi` the element of `jjstep[:, 1:]` (the next one)"),
        S("photon_sum", "photonSumRing", fragment=("jmask", "jmask"),
          concrete={"SPYield": 0.0, "DistStep": 0.0, "thetaC": 0.0, "e2hill": 0.0, "eCthres": 0.0, "Tfrac": 0.0, "E0": 0.0, "s": 0.0, "Eshow": 0.0},
          sym_locals={"jjstep": "j", "jlim": "jlim"}, outputs=["jmask"],
          doc="`photon_sum`, one (segment, ring) element: is the ring radius `j` inside the ring limit of the segment"),
        S("photon_sum", "photonSumBins", fragment=("ehillave", "vhill"),   # through `vhill`: includes the clamp `deltrack[deltrack < 0] = 0`
          sym_params={"eCthres": "eCthres", "Tfrac": "tfrac", "E0": "e0", "s": "s", "e2hill": "e2hill"},
          concrete={"SPYield": 0.0, "DistStep": 0.0, "thetaC": 0.0, "Eshow": 0.0},
          sym_locals={"ehill": "eh"},
          sym_views={"ehill[:-1]": "ehLo", "ehill[1:]": "ehHi", "tlen[..., :-1]": "tlenLo", "tlen[..., 1:]": "tlenHi"},
          outputs=["ehillave", "tlen", "deltrack"],
          doc="`photon_sum`, one (segment, energy bin) element: `eh` is the node `ehill[e]` (for `tlen`), `ehLo`/`ehHi` the bin's two "
              "nodes, `tlenLo`/`tlenHi` the track-length fraction at them"),
        S("photon_sum", "photonSumWave", fragment=("vhill", "poweha"),
          sym_params={"e2hill": "e2hill"},
          concrete={"SPYield": 0.0, "DistStep": 0.0, "thetaC": 0.0, "Eshow": 0.0, "eCthres": 0.0, "Tfrac": 0.0, "E0": 0.0, "s": 0.0},
          sym_locals={"ehillave": "ehillave"}, outputs=["vhill", "wave", "poweha"],
          doc="`photon_sum`, one (segment, energy bin) element: Hillas' angular scale and the squared energy ratio at the bin's mean energy"),
        S("photon_sum", "photonSumTerm", fragment=("uhill", "photsum"),
          sym_params={}, concrete={"SPYield": 0.0, "DistStep": 0.0, "thetaC": 0.0, "e2hill": 0.0, "eCthres": 0.0, "Tfrac": 0.0,
                                   "E0": 0.0, "s": 0.0, "Eshow": 0.0},
          sym_locals={"athetaj": "atheta", "sthetaj": "stheta", "poweha": "poweha", "wave": "wave", "deltrack": "deltrack",
                      "sigval": "sigval"},
          sym_views={"ubin[..., 1:, :]": "ubHi", "ubin[..., :-1, :]": "ubLo", "jmask[..., 1:]": "ringKept"},
          bool_inputs=("ringKept",), sym_attrs={"self.hist_bin_size": "histBin"},
          reductions={"np.einsum": "total"}, outputs=["uhill", "ubin@1", "svtrm", "photsum"],
          doc="`photon_sum`, one (segment, ring, energy bin[, wavelength]) element: the Hillas term `svtrm`, with `ubHi`/`ubLo` the "
              "elements of `ubin[..., 1:, :]`/`ubin[..., :-1, :]` (the value `ubin_1` at this ring and the one before), `ringKept` the "
              "element of `jmask[..., 1:]`; the total `einsum('zje,zw->')` is split: summand out, sum in"),
        S("cher_ang_sig_i", "cherAngSigI",
          sym_params={"taphotstep": "taphotstep", "taphotsum": "taphotsum", "thetaC": "thetaC", "AveCangI": "aveCangI"},
          scalars=("taphotsum", "aveCangI"), reductions={"np.count_nonzero": "cnt", "np.sum": "sum"},
          doc="the spread of the Cherenkov angle; both reductions over the segments are split"),
        S("run", "runBody", fragment=("cloud_mask", "taphotsum"),
          sym_params={}, concrete={"betaE": 0.0, "alt": 0.0, "Eshow100PeV": 0.0, "lat": 0.0, "long": 0.0, "cloudf": None},
          sym_locals={"zs": "zs", "cloud_top_height": "cloudTop", "AirN": "airN", "s": "s", "ThetPrpA": "thetPrpA",
                      "ThetView": "thetView", "RN": "rN", "delgram": "delgram", "ZonZ": "zonZ", "e2hill": "e2hill", "Eshow": "eshow"},
          sym_attrs={"self.pi": "piC", "self.RadE": "radE"},
          opaque={"np.argmax": "izRNmax", "self.sphoton_yeild": "spy", "self.photon_sum": "photsum"},
          reductions={"np.sum": "sum"},
          outputs=["cloud_mask", "E0", "eCthres", "thetaC", "Tfrac", "DistStep", "SPYield", "taphotstep", "taphotsum"],
          doc="the body of `run` for one (segment[, wavelength]) element, from the cloud mask to the photon total: `spy` is the "
              "element of `sphoton_yeild`'s result, the sums over wavelengths (`sum0`) and over segments (`sum1`) are split"),
        S("run", "runAve", fragment=("AveCangI", "AveCangI"),
          sym_params={}, concrete={"betaE": 0.0, "alt": 0.0, "Eshow100PeV": 0.0, "lat": 0.0, "long": 0.0, "cloudf": None},
          sym_locals={"taphotstep": "taphotstep", "thetaC": "thetaC", "taphotsum": "taphotsum"}, scalars=("taphotsum",),
          reductions={"np.sum": "sum"}, outputs=["AveCangI"],
          doc="the yield-weighted mean Cherenkov angle; the sum over the segments is split"),
        cpptrans.CppSpec("nuspacesim/simulation/eas_optical/src/zsteps.cpp", "py_zsteps", "zstepsIter",
                         rename={"pi": "piC", "RadE": "radE"},
                         doc="zsteps.cpp: the loop test at altitude `z` and one iteration (the step `delz` pushed to `delzs`, the "
                             "mid-step altitude pushed to `zsave`, the next altitude)"),
        S("run", "runHead", fragment=(None, "sinThetView"),
          sym_params={"betaE": "betaE", "alt": "alt", "Eshow100PeV": "eshow100PeV"}, concrete={"lat": 0.0, "long": 0.0},
          sym_attrs=geo, outputs=["betaE", "Eshow", "ThetView", "sinThetView"],
          doc="the straight-line head of `run`: the 1-degree clamp, the energy in GeV, the viewing angle and its sine"),
        S("run", "runScaled",
          sym_params={"betaE": "betaE", "alt": "alt", "Eshow100PeV": "eshow100PeV"},
          concrete={"lat": 0.0, "long": 0.0, "cloudf": None},
          sym_attrs={"self.orbit_height": "orbitHeight", "self.RadE": "radE", "self.zmax": "zmax",
                     "self.detector_altitude": "detAlt"},
          skip=("zs", "CherArea"),
          sym_locals={"photsum": "photsum", "AveCangI": "aveCangI", "CangsigI": "cangsigI", "CherArea": "cherArea"},
          doc="head and tail of `run` on the path that reaches the final `return` (the step loop's sums are inputs)"),
    ]
