"""Functions of /repo translated into lean/NssVerif/Gen/Src/C13.lean (see harness/srctie.py, harness/pytrans.py).

Target-mode geometry: `RegionGeomToO.get_beta_angle`, `get_path_length`, the horizon angle of `__init__`, the whole of
`RegionGeomToO.throw` for ONE instant (astropy enters through the declared opaque result of `too_source.localcoords`:
its `alt.rad`, `alt.deg`, `az.deg` are inputs; `generate_times` is opaque), and `ToOEvent.sun_moon_cut` (the Sun / Moon
altitudes and the Moon phase angle that astropy returns are inputs).
"""
import pytrans

MOD = "nuspacesim.simulation.geometry.region_geometry"
TOO = "nuspacesim.simulation.geometry.too"
GEOM = {"self.core_alt": "D", "self.earth_radius": "R"}
LIMB = {"self.config.simulation.angle_from_limb": "limb", "config.simulation.angle_from_limb": "limb"}
ALT = {"self.config.detector.initial_position.altitude": "alt", "config.detector.initial_position.altitude": "alt"}


def specs():
    import nuspacesim as nss
    cfg = nss.NssConfig()
    return [
        pytrans.FnSpec(MOD, "RegionGeomToO.get_beta_angle", "getBetaAngle", sym_params={"nadir_angle": "nad"}, sym_attrs=dict(GEOM),
                       scalars=("D", "R"), scalar_pow=True, clip_ite=True,
                       doc="Earth-emergence angle of a line of sight with nadir angle nad"),
        pytrans.FnSpec(MOD, "RegionGeomToO.get_path_length", "getPathLength", sym_params={"beta": "beta", "nadir_angle": "nad"},
                       sym_attrs={"self.core_alt": "D"}, scalars=("D",), scalar_pow=True,
                       doc="distance detector - ground spot"),
        pytrans.FnSpec(MOD, "RegionGeomToO.__init__", "init", sym_attrs=dict(ALT), concrete={"config": cfg}, scalars=("alt",),
                       scalar_pow=True, outputs=["earth_radius", "core_alt", "alphaHorizon"],
                       doc="the geometric constants RegionGeomToO.__init__ leaves on the object, from the detector altitude (km)"),
        pytrans.FnSpec(MOD, "RegionGeomToO.throw", "throw", concrete={"times": None},
                       sym_attrs={"self.alphaHorizon": "alphaHorizon", **GEOM, **LIMB},
                       scalars=("alphaHorizon", "D", "R", "limb"), scalar_pow=True, clip_ite=True, inline_self=True,
                       kept_view=True,   # sourcebeta, losPathLen are stored compressed by the two masks
                       opaque={"self.generate_times": "times",
                               "self.too_source.localcoords": {"alt.rad": "altRad", "alt.deg": "altDeg", "az.deg": "azDeg"}},
                       outputs=["sourceNadRad", "alt_deg", "az_deg", "horizon_mask", "sourcebeta", "volume_mask", "losPathLen"],
                       doc="one instant of RegionGeomToO.throw after the astropy call: nadir angle, the two masks, emergence angle and path length (the last two are the values for an instant the masks keep)"),
        pytrans.FnSpec(TOO, "ToOEvent.sun_moon_cut", "sunMoonCut", concrete={"time": None},
                       sym_attrs={"self.sun_alt_cut": "sunCut", "self.moon_alt_cut": "moonCut", "self.MoonMinPhaseAngleCut": "minPhase"},
                       scalars=("sunCut", "moonCut", "minPhase"),
                       opaque={"self.get_sun": {"alt.rad": "sunAlt"}, "self.get_moon": {"alt.rad": "moonAlt"},
                               "self.moon_phase_angle": {"value": "phase"}},
                       doc="dark-sky flag of one instant from the Sun and Moon altitudes and the Moon phase angle"),
    ]
