"""Functions of /repo translated into lean/NssVerif/Gen/Src/C07.lean (see harness/srctie.py, harness/pytrans.py)."""
import pytrans


def specs():
    import nuspacesim as nss
    from nuspacesim.simulation.eas_optical.eas import EAS
    from nuspacesim.simulation.taus.taus import Taus
    cfg = nss.NssConfig()
    return [
        pytrans.FnSpec("nuspacesim.simulation.eas_optical.eas", "EAS.altDec", "altDec",
                       sym_params={"beta": "beta", "tauBeta": "tauBeta", "tauLorentz": "tauLorentz", "u": "u"},
                       self_obj=EAS(cfg), doc="decay altitude and decay length (km) of one tau"),
        pytrans.FnSpec("nuspacesim.simulation.taus.taus", "Taus.__call__", "tausCall",
                       sym_params={"betas": "betas", "log_e_nu": "logENu"},
                       sym_attrs={"self.config.simulation.tau_shower.etau_frac": "etauFrac"},
                       opaque={"self.tau_exit_prob": "tauExitProb", "self.tau_energy": "tauEnergy"},
                       self_obj=Taus(cfg), doc="kinematics of one tau from its sampled energy: (tauBeta, tauLorentz, tauEnergy, showerEnergy, tauExitProb)"),
    ]
