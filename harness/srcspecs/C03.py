"""Functions of /repo translated into lean/NssVerif/Gen/Src/C03.lean (see harness/srctie.py, harness/pytrans.py).

The two acceptance estimators `RegionGeom.mcintegral` and `RegionGeomToO.mcintegral`, for ONE kept event.  Their reductions
over the event axis (`np.sum`, `np.var`, `np.count_nonzero`) are SPLIT by the translator: the term under each reduction —
the per-event factor `mcintfactor` at that point of the function — is exported (`sum0Arg` = geometry-only factor,
`sum1Arg` = `var0Arg` = `cnt0Arg` = final factor), the reduced value enters as a fresh 0-d input (`sum0`, `sum1`, `var0`,
`cnt0`), and the four returned values `ret0 … ret3` are functions of those.  `len(...)` (number of thrown events /
instants) is an opaque 0-d input.  The target-mode estimator is translated twice, for the two paths its configuration
switch `self.sun_moon_cut and method == "Optical"` selects.
"""
import pytrans

MOD = "nuspacesim.simulation.geometry.region_geometry"
RED = {"np.sum": "sum", "np.var": "var", "np.count_nonzero": "cnt"}


class _Obj:
    """stand-in for the estimator object: only the configuration switch is read concretely"""

    def __init__(self, **kw):
        self.__dict__.update(kw)


def specs():
    diffuse = pytrans.FnSpec(
        MOD, "RegionGeom.mcintegral", "mcDiffuse",
        sym_params={"triggers": "trig", "costheta": "cEff", "tauexitprob": "pexit", "threshold": "thr", "spec_norm": "sn",
                    "spec_weights_sum": "ss"},
        sym_attrs={"self.costhetaTrSubN": "cTrN", "self.costhetaNSubV": "cNV", "self.costhetaTrSubV": "cTrV",
                   "self.event_mask": "eventMask", "self.mcnorm": "mcnorm"},
        on_kept={"triggers": ("self.event_mask",), "costheta": ("self.event_mask",), "tauexitprob": ("self.event_mask",)},
        bool_inputs=("eventMask",), scalars=("thr", "sn", "ss", "mcnorm", "numTrajs"), scalar_pow=True,
        opaque={"len": "numTrajs"}, reductions=dict(RED), inline_self=True,
        doc="diffuse estimator for one kept event: sum0Arg = geometry-only factor, sum1Arg = final factor; ret0..ret3 = (mcintegral, mcintegralgeoonly, numEvPass, mcintegraluncert) from the reduced values")

    def target(name, cut, method, doc):
        return pytrans.FnSpec(
            MOD, "RegionGeomToO.mcintegral", name,
            sym_params={"triggers": "trig", "costhetaChEff": "cEff", "tauexitprob": "pexit", "threshold": "thr", "spec_norm": "sn",
                        "spec_weights_sum": "ss"},
            sym_attrs={"self.losPathLen": "pathLen"}, sym_kwargs={"lenDec": "lenDec"},
            concrete={"kwargs": {"method": method}}, self_obj=_Obj(sun_moon_cut=cut),
            bool_inputs=("dark",), scalars=("thr", "sn", "ss", "nTimes"), scalar_pow=True,
            opaque={"len": "nTimes", "self.too_source.sun_moon_cut": "dark"}, reductions=dict(RED), inline_self=True, doc=doc)
    return [
        diffuse,
        target("mcTargetCut", True, "Optical", "target-mode estimator for one kept instant, optical channel with the dark-sky cut enabled (`dark` = sun_moon_cut at the instant)"),
        target("mcTargetNoCut", True, "Radio", "target-mode estimator for one kept instant on the path without the dark-sky cut (radio channel, or the cut disabled)"),
    ]
