"""Functions of /repo translated into lean/NssVerif/Gen/Src/C19.lean (see harness/srctie.py, harness/pytrans.py).

Both shipped copies of the two US-standard-atmosphere functions are translated (suffix `A` = simulation/atmosphere/
pressure.py, suffix `B` = simulation/eas_optical/atmospheric_models.py).  The layer tables are the module-level arrays of
the live module (`H_b`, `Lm_b`, `T_b`, `P_b`, `gmr`, `const.earth_radius`), emitted as exact doubles; `np.inf` (the
comparison `z < np.inf`, the sentinel entry `H_b[8]`, the value stored for P <= 0) is the extra input `inf`.
"""
import pytrans

A = "nuspacesim.simulation.atmosphere.pressure"
B = "nuspacesim.simulation.eas_optical.atmospheric_models"


def specs():
    out = []
    for mod, sfx, where in ((A, "A", "atmosphere/pressure.py"), (B, "B", "eas_optical/atmospheric_models.py")):
        out.append(pytrans.FnSpec(mod, "us_std_atm_pressure_from_altitude", f"pressureFromAltitude{sfx}", sym_params={"z": "z"},
                                  inf_name="inf", exact_consts=True,
                                  doc=f"pressure (Pa) at the geometric altitude z (km), one element; copy in {where}"))
        out.append(pytrans.FnSpec(mod, "us_std_atm_altitude_from_pressure", f"altitudeFromPressure{sfx}", sym_params={"P": "P"},
                                  inf_name="inf", exact_consts=True,
                                  doc=f"geometric altitude (km) of the pressure P (Pa), one element; copy in {where}"))
    return out
