"""Functions of /repo translated into lean/NssVerif/Gen/Src/C08.lean (see harness/srctie.py, harness/pytrans.py).

The Cherenkov kernel object is built under the guarded dtype hook (binary64) with the zsteps shim installed, exactly as
the C06/C08 harnesses do: the translator refuses `dtype=float32` arithmetic (single precision is not modelled)."""
import pytrans


def specs():
    import nuspacesim as nss
    from nuspacesim.simulation.eas_optical.eas import EAS
    import cphot_common as cc
    import zshim
    zshim.install()
    cfg = nss.NssConfig()
    k64 = cc.make_kernel(525.0, True)
    opt = "self.config.detector.optical."
    return [
        pytrans.FnSpec("nuspacesim.simulation.eas_optical.eas", "EAS.__call__", "easCall",
                       sym_params={"beta": "beta", "altDec": "altDec", "showerEnergy": "showerEnergy",
                                   "init_lat": "initLat", "init_long": "initLong"},
                       sym_attrs={opt + "telescope_effective_area": "area", opt + "quantum_efficiency": "qe",
                                  opt + "photo_electron_threshold": "thr"},
                       opaque={"self.CphotAng": ("kDphots", "kTheta")},
                       self_obj=EAS(cfg),
                       doc="one event of `EAS.__call__`; (kDphots, kTheta) is what the kernel `self.CphotAng` returns for the event "
                           "(consulted only where the range mask holds): (numPEs, costhetaChEff)"),
        pytrans.FnSpec("nuspacesim.simulation.eas_optical.detector_geometry", "viewing_angle", "viewingAngle",
                       sym_params={"beta_tr": "betaTr", "Zdet": "zdet", "Re": "re"}),
        pytrans.FnSpec("nuspacesim.simulation.eas_optical.shower_properties", "propagation_angle", "propagationAngle",
                       sym_params={"beta_tr": "betaTr", "z": "z", "Re": "re"}),
        pytrans.FnSpec("nuspacesim.simulation.eas_optical.detector_geometry", "distance_to_detector", "distanceToDetector",
                       sym_params={"beta_tr": "betaTr", "z": "z", "z_det": "zdet", "earth_radius": "re"},
                       doc="`viewing_angle` and `propagation_angle` are inlined from their own source"),
        pytrans.FnSpec("nuspacesim.simulation.eas_optical.cphotang", "CphotAng.run", "runScaled",
                       sym_params={"betaE": "betaE", "alt": "alt", "Eshow100PeV": "eshow100PeV"},
                       concrete={"lat": 0.0, "long": 0.0, "cloudf": None},
                       sym_attrs={"self.orbit_height": "orbitHeight", "self.RadE": "radE", "self.zmax": "zmax",
                                  "self.detector_altitude": "detAlt"},
                       skip=("zs", "CherArea"),
                       sym_locals={"photsum": "photsum", "AveCangI": "aveCangI", "CangsigI": "cangsigI", "CherArea": "cherArea"},
                       self_obj=k64,
                       doc="head and tail of `CphotAng.run` on the path that reaches the final `return`: the 1-degree clamp, then "
                           "(photon density scaled to the detector altitude, Cherenkov angle in degrees) from the sums of the "
                           "step loop; `theta_view` and `distance_to_detector` are inlined from their own source"),
    ]
