"""Functions of /repo translated into lean/NssVerif/Gen/Src/C02.lean (see harness/srctie.py, harness/pytrans.py).

`RegionGeom.throw` for ONE event: the four uniform numbers are the symbolic (array) inputs, the ten constants `__init__`
left on the object are symbolic 0-d inputs (their own translation from the configuration is `Gen.Src.C01.init`).
`RegionGeom.find_lat_long_along_traj` for ONE kept event: the seven per-event attributes it reads through the
`event_mask` accessors (`thetas()`, `phis()`, `valid_*()` are inlined from the source) and the distance along the trajectory.
"""
import pytrans

MOD = "nuspacesim.simulation.geometry.region_geometry"

# attribute of the object -> name of the input of the translated function (order = order of the parameters)
THROW_CONSTS = {"self.sinOfMaxThetaTrSubV": "sinMax", "self.maxPhiS": "maxPhiS", "self.minPhiS": "minPhiS", "self.core_alt": "D",
                "self.earth_rad_2": "R2", "self.maxLOSpathLen": "Lmax", "self.minLOSpathLen": "Lmin", "self.earth_radius": "R",
                "self.detLat": "detLat", "self.detLong": "detLong"}
THROW_OUT = ["thetaTrSubV", "costhetaTrSubV", "phiTrSubV", "phiS", "losPathLen", "thetaS", "costhetaNSubV", "costhetaTrSubN",
             "thetaTrSubN", "betaTrSubN", "latS", "longS", "elevAngVSubN", "aziAngVSubN", "event_mask"]
ALONG_ATTRS = {"self.earth_radius": "R", "self.thetaTrSubV": "thetaTrSubV", "self.phiTrSubV": "phiTrSubV", "self.latS": "latS",
               "self.longS": "longS", "self.elevAngVSubN": "elevAngVSubN", "self.aziAngVSubN": "aziAngVSubN",
               "self.event_mask": "eventMask"}


def specs():
    return [
        pytrans.FnSpec(MOD, "RegionGeom.throw", "throw",
                       sym_params={"u": ("u1", "u2", "u3", "u4")}, sym_attrs=dict(THROW_CONSTS),
                       scalars=tuple(THROW_CONSTS.values()), scalar_pow=True, clip_ite=True, outputs=list(THROW_OUT),
                       doc="one thrown event: every public per-event attribute and the event mask, from (u1,u2,u3,u4) and the constants of __init__"),
        pytrans.FnSpec(MOD, "RegionGeom.find_lat_long_along_traj", "alongTraj",
                       sym_params={"dist_along_traj": "s"}, sym_attrs=dict(ALONG_ATTRS), scalars=("R",), scalar_pow=True,
                       bool_inputs=("eventMask",), inline_self=True, kept_view=True,   # returns values read under event_mask
                       doc="(latitude, longitude) in radians of the point at distance s along the trajectory of one kept event"),
    ]
