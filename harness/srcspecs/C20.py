"""Functions of /repo translated into lean/NssVerif/Gen/Src/C20.lean (see harness/srctie.py, harness/pytrans.py).

The radio chain works on (events x frequency bins) arrays; the translation is the elementwise view: one event, one bin.
Table look-ups (the nearest-node row of waveform_params.hdf5, the row of ionosphere_params.hdf5) and the random numbers
(`np.random.uniform`) are inputs."""
import contextlib
import io

import pytrans

RADIO = "nuspacesim.simulation.eas_radio.radio"
ANT = "nuspacesim.simulation.eas_radio.radio_antenna"
GEO = "nuspacesim.simulation.eas_optical.detector_geometry"

# RadioEFieldParams.__call__: the node look-up (argmin over the table, fancy indexing, the frequency cut, reshapes) is
# not translated; the five parameter columns of the selected row ARE the inputs of the elementwise part.
FIELD_LOCALS = {"zenith_diffs": None, "h_diffs": None, "j": None, "params": None, "fcenter": None, "cut": None,
                "nrow": None, "ncol": None, "E0": "e0", "peak": "peak", "w": "w", "E1": "e1", "w2": "w2"}


def _field_sub():
    return pytrans.FnSpec("", "", "", opaque_locals=dict(FIELD_LOCALS))


def _iono_sub():
    return pytrans.FnSpec("", "", "", sym_attrs={"self.params": ("p0", "p1", "p2", "p3")}, opaque={"np.random.uniform": "tecErr"})


def specs():
    import nuspacesim as nss
    from nuspacesim.simulation.eas_radio.radio import EASRadio, IonosphereParams, RadioEFieldParams
    cfg0 = nss.NssConfig()
    cfg0.detector.radio.low_frequency, cfg0.detector.radio.high_frequency = 30.0, 300.0
    cfg0.simulation.ionosphere = None
    cfg1 = nss.NssConfig()
    cfg1.detector.radio.low_frequency, cfg1.detector.radio.high_frequency = 30.0, 300.0
    cfg1.simulation.ionosphere = type(nss.NssConfig().simulation.ionosphere)(enable=True, total_electron_content=10.0, total_electron_error=0.1)
    with contextlib.redirect_stdout(io.StringIO()):
        iono = IonosphereParams((30.0, 300.0), 0.1, 10.0)
    if not iono.params_exist:
        raise pytrans.Unsupported("ionosphere_params.hdf5 has no row for 30-300 MHz, TEC 10 any more")
    ev = {"beta": "beta", "altDec": "altDec", "lenDec": "lenDec", "theta": "theta", "pathLen": "pathLen", "showerEnergy": "showerEnergy"}
    det = {"self.config.detector.initial_position.altitude": "detAlt"}
    S = pytrans.FnSpec
    return [
        S(RADIO, "EASRadio.get_decay_view", "decayView", sym_params={"exitView": "exitView", "losDist": "losDist", "lenDec": "lenDec"},
          self_obj=EASRadio(cfg0), doc="view angle (rad) from the decay point to the detector"),
        S(GEO, "distance_to_detector", "distToDet", sym_params={"beta_tr": "beta", "z": "z", "z_det": "zDet", "earth_radius": "re"},
          doc="distance (km) from a point at altitude z on the track to the detector"),
        S(RADIO, "RadioEFieldParams.__call__", "fieldBin", sym_params={"zenith": "zenith", "viewAngle": "viewAngle", "h": "height"},
          opaque_locals=dict(FIELD_LOCALS), self_obj=RadioEFieldParams((30.0, 300.0)),
          doc="peak field of one frequency bin from its parameter row (the node look-up is an input)"),
        S(RADIO, "IonosphereParams.__call__", "ionoScale", sym_params={"EFields": "eField"},
          sym_attrs={"self.params": ("p0", "p1", "p2", "p3")}, opaque={"np.random.uniform": "tecErr"}, self_obj=iono,
          doc="ionospheric degradation factor for one drawn TEC error"),
        S(RADIO, "EASRadio.__call__", "efieldCall", sym_params=dict(ev), sym_attrs=dict(det),
          opaque={"np.random.uniform": ["uB", "uA"]}, inline={"radioParams": _field_sub()}, self_obj=EASRadio(cfg0),
          doc="E-field of one bin of one event, no ionosphere section in the configuration"),
        S(RADIO, "EASRadio.__call__", "efieldCallIono", sym_params=dict(ev), sym_attrs=dict(det),
          opaque={"np.random.uniform": ["uB", "uA"]}, inline={"radioParams": _field_sub(), "ionosphere": _iono_sub()},
          self_obj=EASRadio(cfg1), doc="E-field of one bin of one event, ionosphere section with supported parameters (30-300 MHz, TEC 10)"),
        S(ANT, "voltage_from_field", "voltageFromField", sym_params={"Efield": "eField", "freqs": "freq", "gain": "gain"},
          doc="antenna voltage of one bin"),
        S(ANT, "sky_noise", "skyNoise", sym_params={"freqs": "freq"}, doc="galactic + extragalactic noise temperature (K) at one frequency (MHz)"),
        S(ANT, "noise_voltage", "noiseVoltage", sym_params={"freqs": "freq", "h_obs": "hObs"}, doc="noise voltage of one 10 MHz bin"),
        S(ANT, "calculate_snr", "calculateSnr5", sym_params={"Efield": ["e0", "e1", "e2", "e3", "e4"], "h_obs": "hObs", "Nants": "nAnts", "gain": "gain"},
          concrete={"freqRange": (30.0, 80.0)}, opaque_locals={"freqs": ["f0", "f1", "f2", "f3", "f4"]},
          doc="SNR of one event on a five-bin band (sums unrolled); the frequency list is an input"),
        S(ANT, "calculate_snr", "calculateSnr1", sym_params={"Efield": ["e0"], "h_obs": "hObs", "Nants": "nAnts", "gain": "gain"},
          concrete={"freqRange": (30.0, 40.0)}, opaque_locals={"freqs": ["f0"]},
          doc="SNR of one event on a one-bin band; the frequency is an input"),
    ]
