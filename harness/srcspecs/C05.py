"""Functions of /repo translated into lean/NssVerif/Gen/Src/C05.lean (see harness/srctie.py, harness/pytrans.py).

`Taus.tau_exit_prob(betas, log_e_nu)` is read for ONE event (beta, log_e_nu) and, independently, ONE entry of the table:
  * `self.pexit_grid['beta_rad']` is the input `betaAxis : List α` (so `beta_min` / `beta_max` are its first / last entry);
  * `self.pexit_grid.data` is the input `entry` (one table entry): the in-place floor `data[data <= 0] = eps32` is exported as
    the stored attribute `data` (the entry after the call);
  * `RegularGridInterpolator(axes, np.log10(data))` is an opaque constructor without a result input; its symbolic argument (what
    the interpolator is built on, per entry) is exported as `rgiArg0`;
  * the two calls of the interpolator are opaque, one input per call site: `interpValid` (the in-table branch) and `interpLow`
    (below the minimum angle); the points at which it is queried are exported (`interpValidArg0/1`, `interpLowArg0/1`);
  * `np.finfo(np.float32).eps` and `np.log10(np.finfo(np.float32).eps)` are constants of the live module (the second one is a
    SINGLE-precision logarithm, numpy's result for a float32 scalar) and are emitted as exact doubles.
"""
import pytrans


def taus_object():
    import nuspacesim as nss
    from nuspacesim.simulation.taus.taus import Taus
    return Taus(nss.NssConfig())


def specs():
    return [
        pytrans.FnSpec("nuspacesim.simulation.taus.taus", "Taus.tau_exit_prob", "tauExitProb",
                       sym_params={"betas": "beta", "log_e_nu": "logENu"},
                       sym_lists={"self.pexit_grid['beta_rad']": "betaAxis"},
                       sym_attrs={"self.pexit_grid.data": "entry"},
                       opaque={"RegularGridInterpolator": (), "pexit_interp": ["interpValid", "interpLow"]},
                       export_args={"RegularGridInterpolator": "rgi", "pexit_interp": None},
                       outputs=["pexit_grid.data"], exact_consts=True, self_obj=taus_object(),
                       doc="one event (beta, logENu) of `Taus.tau_exit_prob` and one `entry` of its table: `data` = the entry after the "
                           "in-place floor, `rgiArg0` = what the interpolator is built on (per entry), `interpValid` / `interpLow` = the "
                           "interpolator's values at the exported query points, `ret` = the exit probability"),
    ]
