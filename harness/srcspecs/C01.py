"""Functions of /repo translated into lean/NssVerif/Gen/Src/C01.lean (see harness/srctie.py, harness/pytrans.py).

`RegionGeom.__init__`: the sampling limits and the normalisation constant `mcnorm` as functions of the six configuration
numbers the constructor reads (altitude in km, angles in radians: the configuration object holds plain floats after its
own validation, so there is no unit conversion inside the constructor apart from `R_earth.to(u.km).value`, which is
evaluated in the live module and enters as the literal it is).  Both spellings `config.…` and `self.config.…` of a
configuration path are declared, so that switching between them in the source does not turn an input into a constant.

`RegionGeom.mcintegral` (geometry-only part, used by C01; the full per-event factor is owned by C03, see srcspecs/C03.py).
"""
import pytrans

MOD = "nuspacesim.simulation.geometry.region_geometry"

CFG_PATHS = {"detector.initial_position.altitude": "alt", "simulation.angle_from_limb": "limb",
             "simulation.max_cherenkov_angle": "maxCher", "simulation.max_azimuth_angle": "maxAzi",
             "detector.initial_position.latitude": "lat", "detector.initial_position.longitude": "long"}
INIT_OUT = ["earth_radius", "earth_rad_2", "core_alt", "minLOSpathLen", "maxLOSpathLen", "sinOfMaxThetaTrSubV", "maxPhiS",
            "minPhiS", "mcnorm", "detLat", "detLong"]
# locals of the constructor that the model keeps as fields of `Consts` (the four density normalisations and their product)
INIT_LOCALS = ("alphaHorizon", "alphaMin", "normThetaTrSubV", "normPhiTrSubV", "normPhiS", "normThetaS", "pdfnorm")


def cfg_attrs():
    out = {}
    for path, name in CFG_PATHS.items():
        out[f"config.{path}"] = name
        out[f"self.config.{path}"] = name
    return out


def specs():
    import nuspacesim as nss
    cfg = nss.NssConfig()
    return [
        pytrans.FnSpec(MOD, "RegionGeom.__init__", "init", sym_attrs=cfg_attrs(), concrete={"config": cfg},
                       scalars=tuple(CFG_PATHS.values()), scalar_pow=True, clip_ite=True, outputs=list(INIT_OUT), locals_out=INIT_LOCALS,
                       doc="the constants RegionGeom.__init__ leaves on the object, from (altitude, limb angle, Cherenkov angle, azimuth range, lat, long)"),
    ]
