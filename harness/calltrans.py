"""Source tie for C10: read `CphotAng.__call__` (and the signature / return statements of `CphotAng.run`) of the working
tree statement by statement and regenerate `lean/NssVerif/Gen/Src/C10.lean`.

The batch entry point is not arithmetic, it is a fixed pipeline of library calls.  The reader below recognises exactly
the statement forms of that pipeline and maps each one to the primitive of `Model.Sched` that models it:

    if len(a) < 1 or len(b) < 1 …: return np.empty(0), np.empty(0)      ->  `if xs.length < 1 then ok ([], [])`
    b = db.from_sequence(zip(a, b, …), partition_size=K)                  ->  `partition K`; the zipped names in order
    with ProgressBar(): results = b.map(lambda x: self.run(*x, c)).compute()
                                                                          ->  `batch f K xs sched` (map, execute, gather)
    if len(results) != len(a): raise RuntimeError(…)                      ->  the completeness guard on the gathered list
    P, Q = zip(*results)                                                  ->  `unzip2`
    return np.asarray(P), np.array(Q)                                     ->  the returned pair, in this order

The generated module holds (i) the recognised names and literals as data (parameter order of `__call__`, names in the
empty-batch guard, names zipped, partition size, what is passed to `run`, parameters of `run`, arity of every `return` of
`run`, the two names compared by the completeness guard, the targets of the unzip, the names returned) and (ii) the
function `call` assembled from the recognised statements *in source order*.  `Props/C10.lean` proves that this `call`
equals the model's for every valid schedule, instantiates the schedule theorems on it, and proves the positional facts
(zip order = parameter order = order expected by `run`, returned order = unzip order = `run`'s output order).

Anything else — another statement, another argument form, a keyword the reader does not know, a different operator in a
guard — raises `Unsupported`: the regeneration fails and the verdict logic reports a broken tie.  It never guesses.
"""
from __future__ import annotations

import ast
import hashlib
from pathlib import Path

from common import LEAN, REPO, write_if_changed

REL = "src/nuspacesim/simulation/eas_optical/cphotang.py"


class Unsupported(Exception):
    pass


def _need(cond, what, node=None):
    if not cond:
        where = f" (line {node.lineno})" if node is not None and hasattr(node, "lineno") else ""
        raise Unsupported(f"CphotAng.__call__: {what}{where}")


def _name(n, what):
    _need(isinstance(n, ast.Name), f"{what}: a plain name expected", n)
    return n.id


def _is_call(n, dotted: str):
    """n is a call of the dotted name (e.g. 'np.empty', 'len', 'db.from_sequence')"""
    if not isinstance(n, ast.Call):
        return False
    f = n.func
    parts = []
    while isinstance(f, ast.Attribute):
        parts.append(f.attr)
        f = f.value
    if not isinstance(f, ast.Name):
        return False
    parts.append(f.id)
    return ".".join(reversed(parts)) == dotted


def _len_of(n, what):
    _need(_is_call(n, "len") and len(n.args) == 1 and not n.keywords, f"{what}: len(<name>) expected", n)
    return _name(n.args[0], what)


def read(repo: Path = REPO) -> dict:
    path = Path(repo) / REL
    tree = ast.parse(path.read_text())
    cls = next((n for n in tree.body if isinstance(n, ast.ClassDef) and n.name == "CphotAng"), None)
    _need(cls is not None, "class CphotAng not found")
    fns = {n.name: n for n in cls.body if isinstance(n, ast.FunctionDef)}
    _need("__call__" in fns and "run" in fns, "methods __call__ / run not found")
    call, run = fns["__call__"], fns["run"]
    _need(not call.decorator_list, "__call__ is decorated", call)

    def params(fn):
        a = fn.args
        _need(not a.vararg and not a.kwarg and not a.kwonlyargs and not a.posonlyargs, f"{fn.name}: only plain parameters expected", fn)
        names = [x.arg for x in a.args]
        _need(names and names[0] == "self", f"{fn.name}: first parameter is not self", fn)
        return names[1:]

    out = {"callParams": params(call), "runParams": params(run), "where": f"{REL}:{call.lineno}-{call.end_lineno}",
           "ast_sha256": hashlib.sha256((ast.dump(call) + ast.dump(run.args) +
                                         "".join(sorted(ast.dump(r) for r in ast.walk(run) if isinstance(r, ast.Return)))).encode()).hexdigest()}
    # every return of run is a literal pair
    rets = sorted((r for r in ast.walk(run) if isinstance(r, ast.Return)), key=lambda r: (r.lineno, r.col_offset))
    _need(rets, "run: no return statement", run)
    for r in rets:
        _need(isinstance(r.value, ast.Tuple), "run: a return that is not a literal tuple", r)
    out["runReturnArities"] = [len(r.value.elts) for r in rets]
    out["runReturns"] = [ast.unparse(e) for e in rets[-1].value.elts]

    body = list(call.body)
    if body and isinstance(body[0], ast.Expr) and isinstance(body[0].value, ast.Constant) and isinstance(body[0].value.value, str):
        body = body[1:]
    _need(len(body) == 6, f"{len(body)} statements where the six of the pipeline are expected", call)
    s_empty, s_bag, s_with, s_guard, s_unzip, s_ret = body

    # 1. empty-batch guard
    _need(isinstance(s_empty, ast.If) and not s_empty.orelse and len(s_empty.body) == 1, "first statement is not the empty-batch `if`", s_empty)
    t = s_empty.test
    tests = t.values if isinstance(t, ast.BoolOp) and isinstance(t.op, ast.Or) else [t]
    _need(not isinstance(t, ast.BoolOp) or isinstance(t.op, ast.Or), "empty-batch guard: only `or` expected", t)
    eg = []
    for c in tests:
        _need(isinstance(c, ast.Compare) and len(c.ops) == 1 and isinstance(c.ops[0], ast.Lt) and isinstance(c.comparators[0], ast.Constant)
              and c.comparators[0].value == 1 and type(c.comparators[0].value) is int, "empty-batch guard: `len(x) < 1` expected", c)
        eg.append(_len_of(c.left, "empty-batch guard"))
    out["emptyGuard"] = eg
    r = s_empty.body[0]
    _need(isinstance(r, ast.Return) and isinstance(r.value, ast.Tuple) and len(r.value.elts) == 2, "empty batch: a pair must be returned", r)
    for e in r.value.elts:
        _need(_is_call(e, "np.empty") and len(e.args) == 1 and not e.keywords and isinstance(e.args[0], ast.Constant) and e.args[0].value == 0
              and type(e.args[0].value) is int, "empty batch: np.empty(0) expected", e)

    # 2. the bag
    _need(isinstance(s_bag, ast.Assign) and len(s_bag.targets) == 1, "second statement is not the bag assignment", s_bag)
    bag = _name(s_bag.targets[0], "bag")
    v = s_bag.value
    _need(_is_call(v, "db.from_sequence") and len(v.args) == 1, "db.from_sequence(<zip>, partition_size=K) expected", v)
    _need([k.arg for k in v.keywords] == ["partition_size"], "from_sequence: exactly the keyword partition_size expected", v)
    k = v.keywords[0].value
    _need(isinstance(k, ast.Constant) and type(k.value) is int and k.value >= 0, "partition_size: a non-negative integer literal expected", k)
    out["partitionSize"] = k.value
    z = v.args[0]
    _need(_is_call(z, "zip") and not z.keywords and z.args, "from_sequence: zip(<names>) expected", z)
    out["zipped"] = [_name(a, "zip argument") for a in z.args]

    # 3. map + compute
    _need(isinstance(s_with, ast.With) and len(s_with.items) == 1 and _is_call(s_with.items[0].context_expr, "ProgressBar")
          and s_with.items[0].optional_vars is None and len(s_with.body) == 1, "`with ProgressBar():` with one statement expected", s_with)
    a = s_with.body[0]
    _need(isinstance(a, ast.Assign) and len(a.targets) == 1, "results assignment expected", a)
    results = _name(a.targets[0], "results")
    c = a.value
    _need(isinstance(c, ast.Call) and isinstance(c.func, ast.Attribute) and c.func.attr == "compute" and not c.args and not c.keywords,
          "<bag>.map(…).compute() expected", c)
    m = c.func.value
    _need(isinstance(m, ast.Call) and isinstance(m.func, ast.Attribute) and m.func.attr == "map" and isinstance(m.func.value, ast.Name)
          and m.func.value.id == bag and len(m.args) == 1 and not m.keywords, "<bag>.map(<lambda>) expected", m)
    lam = m.args[0]
    _need(isinstance(lam, ast.Lambda) and [x.arg for x in lam.args.args] == ["x"] and not lam.args.vararg and not lam.args.kwarg
          and not lam.args.defaults, "lambda x: … expected", lam)
    rc = lam.body
    _need(_is_call(rc, "self.run") and not rc.keywords, "lambda body: self.run(*x, …) expected", rc)
    ra = []
    for arg in rc.args:
        if isinstance(arg, ast.Starred):
            ra.append("*" + _name(arg.value, "starred argument"))
        else:
            ra.append(_name(arg, "argument of run"))
    out["runCallArgs"] = ra

    # 4. completeness guard
    _need(isinstance(s_guard, ast.If) and not s_guard.orelse and len(s_guard.body) == 1 and isinstance(s_guard.body[0], ast.Raise)
          and s_guard.body[0].exc is not None, "completeness guard `if …: raise …` expected", s_guard)
    g = s_guard.test
    _need(isinstance(g, ast.Compare) and len(g.ops) == 1 and isinstance(g.ops[0], ast.NotEq), "completeness guard: `len(a) != len(b)` expected", g)
    out["lengthGuard"] = [_len_of(g.left, "completeness guard"), _len_of(g.comparators[0], "completeness guard")]
    _need(out["lengthGuard"][0] == results, "completeness guard does not test the gathered results", g)

    # 5. unzip
    _need(isinstance(s_unzip, ast.Assign) and len(s_unzip.targets) == 1 and isinstance(s_unzip.targets[0], ast.Tuple), "unzip assignment expected", s_unzip)
    out["unzipTargets"] = [_name(e, "unzip target") for e in s_unzip.targets[0].elts]
    u = s_unzip.value
    _need(_is_call(u, "zip") and len(u.args) == 1 and isinstance(u.args[0], ast.Starred) and not u.keywords
          and _name(u.args[0].value, "unzip") == results, "zip(*results) expected", u)

    # 6. return
    _need(isinstance(s_ret, ast.Return) and isinstance(s_ret.value, ast.Tuple), "final `return a, b` expected", s_ret)
    rn = []
    for e in s_ret.value.elts:
        _need((_is_call(e, "np.asarray") or _is_call(e, "np.array")) and len(e.args) == 1 and not e.keywords, "np.asarray(<name>) / np.array(<name>) expected", e)
        rn.append(_name(e.args[0], "returned name"))
    out["returned"] = rn
    return out


def _strs(xs):
    return "[" + ", ".join('"' + x + '"' for x in xs) + "]"


def emit(d: dict) -> str:
    return f"""import NssVerif.Model.Schedule
/-!
GENERATED on every run by harness/calltrans.py from the source of the working tree — do not edit.

* `CphotAng.__call__`  <-  {d['where']}   (ast sha256 {d['ast_sha256'][:16]})

Each definition is what the reader recognised in the source, `call` is the pipeline assembled from the recognised
statements in source order over the primitives of `Model.Sched`.
-/
namespace Gen.Src.C10
open Model.Sched

/-- parameters of `__call__` after `self`, in order -/
def callParams : List String := {_strs(d['callParams'])}
/-- the names whose `len(·) < 1` answers the empty batch -/
def emptyGuard : List String := {_strs(d['emptyGuard'])}
/-- the names zipped into per-event tuples, in order -/
def zipped : List String := {_strs(d['zipped'])}
/-- the literal `partition_size` -/
def partitionSize : Nat := {d['partitionSize']}
/-- what the mapped lambda passes to `self.run` (`*x` = the unpacked per-event tuple) -/
def runCallArgs : List String := {_strs(d['runCallArgs'])}
/-- parameters of `run` after `self`, in order -/
def runParams : List String := {_strs(d['runParams'])}
/-- number of values in every `return` of `run` -/
def runReturnArities : List Nat := {d['runReturnArities']}
/-- the last `return` of `run` -/
def runReturns : List String := {_strs(d['runReturns'])}
/-- the two names whose lengths the completeness guard compares -/
def lengthGuard : List String := {_strs(d['lengthGuard'])}
/-- targets of `… = zip(*results)` -/
def unzipTargets : List String := {_strs(d['unzipTargets'])}
/-- the names returned, in order -/
def returned : List String := {_strs(d['returned'])}

/-- `CphotAng.__call__` as read from the source: empty-batch answer, partition / map / compute under the schedule `sched`,
completeness guard on the gathered list, unzip.  `ok none` = the call raised the batch-level error. -/
def call {{α β γ ε : Type}} (f : α → Except ε (β × γ)) (xs : List α) (sched : List Completion) :
    Except ε (Option (List β × List γ)) :=
  if xs.length < 1 then .ok (some ([], []))
  else match batch f partitionSize xs sched with
    | .raised e => .error e
    | .lost => .ok none
    | .ok ys => if ys.length != xs.length then .ok none else .ok (some (unzip2 ys))

end Gen.Src.C10
"""


def regen() -> dict:
    d = read()
    (LEAN / "NssVerif" / "Gen" / "Src").mkdir(parents=True, exist_ok=True)
    ch = write_if_changed(LEAN / "NssVerif" / "Gen" / "Src" / "C10.lean", emit(d))
    return {"Gen/Src/C10.lean": {"changed": bool(ch), "functions": {"call": {"source": "nuspacesim.simulation.eas_optical.cphotang.CphotAng.__call__",
                                                                            "where": d["where"], "ast_sha256": d["ast_sha256"][:16],
                                                                            "recognised": {k: v for k, v in d.items() if k not in ("where", "ast_sha256")}}}}}


if __name__ == "__main__":
    import json
    print(json.dumps(regen(), indent=1))
