"""Evaluate one seeded change: verify it (tests pass, demo fails with it / passes without), run checks against it.

usage: seedtest.py <dir with patch.diff demo.py meta.json> [<check ids>…]      (default check = meta.property)
Works in a scratch worktree of /repo (removed afterwards); /repo itself is never touched.
"""
import json
import os
import shutil
import subprocess
import sys
import time
from pathlib import Path

VERIF = Path(__file__).resolve().parent.parent


def sh(cmd, **kw):
    return subprocess.run(cmd, shell=True, capture_output=True, text=True, **kw)


def main():
    d = Path(sys.argv[1]).resolve()
    meta = json.loads((d / "meta.json").read_text())
    checks = sys.argv[2:] or [meta["property"]]
    tag = f"{meta['property']}_{d.name}_{os.getpid()}"
    wt = Path(f"/tmp/seedrun/{tag}")
    wt.parent.mkdir(parents=True, exist_ok=True)
    res = {"dir": str(d), "property": meta["property"], "checks": {}}
    sh(f"git -C /repo worktree remove --force {wt}")
    r = sh(f"git -C /repo worktree add --detach {wt} HEAD")
    assert r.returncode == 0, r.stderr
    try:
        sh(f"cp /repo/src/nuspacesim/_version.py {wt}/src/nuspacesim/; cp /repo/src/nuspacesim/simulation/eas_optical/zsteps*.so {wt}/src/nuspacesim/simulation/eas_optical/")
        env = dict(os.environ, PYTHONPATH=f"{wt}/src", PYTHONDONTWRITEBYTECODE="1")
        clean = subprocess.run(["/venv/bin/python", str(d / "demo.py")], cwd=wt, env=env, capture_output=True, text=True, timeout=1800)
        res["demo_clean_rc"] = clean.returncode
        r = sh(f"git -C {wt} apply --whitespace=nowarn {d / 'patch.diff'}")
        res["apply_rc"] = r.returncode
        if r.returncode != 0:
            res["apply_err"] = r.stderr[-300:]
            print(json.dumps(res, indent=1)); return 2
        t = subprocess.run(["/venv/bin/python", "-m", "pytest", "-q", "-p", "no:cacheprovider", "--timeout=900", "test"], cwd=wt, env=env, capture_output=True, text=True)
        res["baseline_tail"] = t.stdout.strip().split("\n")[-1]
        res["baseline_ok"] = "45 passed" in res["baseline_tail"] and "failed" not in res["baseline_tail"]
        mut = subprocess.run(["/venv/bin/python", str(d / "demo.py")], cwd=wt, env=env, capture_output=True, text=True, timeout=1800)
        res["demo_mutated_rc"] = mut.returncode
        res["demo_mutated_msg"] = (mut.stdout + mut.stderr).strip()[-300:]
        res["valid_seed"] = bool(res["baseline_ok"] and clean.returncode == 0 and mut.returncode != 0)
        for c in checks:
            for tier in ("quick",):
                t0 = time.time()
                p = subprocess.run([str(VERIF / "check"), c, tier], cwd=VERIF, env=dict(os.environ, VERIF_REPO=str(wt)), capture_output=True, text=True)
                lines = [l for l in p.stdout.split("\n") if l.startswith(("VIOLATION", "KNOWN-FINDING", "OK ", "INFRA", "  failing input"))]
                res["checks"][f"{c}:{tier}"] = {"rc": p.returncode, "wall": round(time.time() - t0, 1), "lines": [l[:300] for l in lines][:8]}
        print(json.dumps(res, indent=1))
    finally:
        sh(f"git -C /repo worktree remove --force {wt}")
        shutil.rmtree(wt, ignore_errors=True)
    return 0


if __name__ == "__main__":
    sys.exit(main())
