#!/bin/sh
# MANIFEST.setup_cmd: build the Lean development and the native model driver from files on disk only.
set -eu
HERE="$(cd "$(dirname "$0")" && pwd)"
cd "$HERE"
export PYTHONPATH="$HERE/harness${PYTHONPATH:+:$PYTHONPATH}" PYTHONDONTWRITEBYTECODE=1
# regenerate Gen/* from /repo (tables, constants), then build everything
/venv/bin/python -c "import common; common.regen_ops_index()"
if [ -f harness/extract.py ]; then /venv/bin/python harness/extract.py; fi
cd lean
lake build 2>&1 | tail -5
test -x .lake/build/bin/nssdriver
echo "setup ok"
