#!/bin/sh
# MANIFEST.setup_cmd: build the Lean development and the native model driver from files on disk only.
set -eu
HERE="$(cd "$(dirname "$0")" && pwd)"
cd "$HERE"
export PYTHONPATH="$HERE/harness${PYTHONPATH:+:$PYTHONPATH}" PYTHONDONTWRITEBYTECODE=1
# regenerate Gen/* from /repo (tables, constants), then build everything
/venv/bin/python harness/regen_all.py > /dev/null
cd lean
lake build nssdriver $(ls NssVerif/Props/*.lean | sed 's#/#.#g; s#\.lean$##') 2>&1 | tail -5
test -x .lake/build/bin/nssdriver
echo "setup ok"
