import NssVerif.RealInst
import NssVerif.Model.Cphot
import NssVerif.Gen.CphotConsts
import Mathlib.Tactic.Ring
import Mathlib.Tactic.Linarith
import Mathlib.Tactic.Positivity
import Mathlib.Tactic.NormNum

/-!
# C06 — Cherenkov photon yield conforms to the shower model at working precision
-/

open Real ScalarReal Model.Cphot
namespace C06

/-- the licence for repair F4: `2(1 − cos x)` and `4 sin²(x/2)` are the same real function -/
theorem half_angle (x : ℝ) : 2 * (1 - Real.cos x) = 4 * Real.sin (x / 2) ^ 2 := by
  have h := Real.cos_sq (x / 2)
  have h2 := Real.sin_sq_add_cos_sq (x / 2)
  rw [show 2 * (x / 2) = x by ring] at h
  nlinarith

/-- … and the model's `chord2` is that function -/
theorem chord2_eq (x : ℝ) : chord2 x = 2 * (1 - Real.cos x) := by
  rw [half_angle]
  simp [chord2]
  norm_num
  ring_nf

end C06
