import NssVerif.RealInst
import NssVerif.Model.Radio
import Mathlib.Tactic.Ring
import Mathlib.Tactic.Linarith
import Mathlib.Tactic.Positivity
import Mathlib.Tactic.FieldSimp
import Mathlib.Tactic.NormNum
import Mathlib.Algebra.BigOperators.Group.List.Basic

/-!
# Helper lemmas for C20 (radio chain)

* left-to-right sums over ℝ are `List.sum`, hence homogeneous;
* the frequency cut of an arithmetic progression of bin centres (pure `Nat` arithmetic, no Mathlib needed).
-/

open ScalarReal Model.Radio

namespace RadioLemmas

/-! ### sums -/

theorem foldl_add_eq (xs : List ℝ) (a : ℝ) : xs.foldl (· + ·) a = a + xs.sum := by
  induction xs generalizing a with
  | nil => simp
  | cons x xs ih => simp [ih, add_assoc]

theorem ssum_eq (xs : List ℝ) : Scalar.sum xs = xs.sum := by
  unfold Scalar.sum
  rw [foldl_add_eq]
  simp

theorem sum_map_mul_left (c : ℝ) (xs : List ℝ) : (xs.map (c * ·)).sum = c * xs.sum := by
  induction xs with
  | nil => simp
  | cons x xs ih => simp [ih, mul_add]

theorem sum_zipWith_mul_left {β : Type} (c : ℝ) (g : ℝ → β → ℝ) (hg : ∀ e f, g (c * e) f = c * g e f)
    (row : List ℝ) (fs : List β) :
    (List.zipWith g (row.map (c * ·)) fs).sum = c * (List.zipWith g row fs).sum := by
  induction row generalizing fs with
  | nil => simp
  | cons e row ih =>
    cases fs with
    | nil => simp
    | cons f fs => simp [ih, hg, mul_add]

theorem sum_eq_zero_of_all_zero (xs : List ℝ) (h : ∀ x ∈ xs, x = 0) : xs.sum = 0 := by
  induction xs with
  | nil => simp
  | cons x xs ih =>
    simp only [List.sum_cons]
    rw [h x (by simp), ih (fun y hy => h y (by simp [hy]))]
    simp

/-! ### the frequency cut of the progression 5, 15, 25, … -/

/-- the bin centres of a parametrisation with `n` bins of 10 MHz starting at 0 -/
def progression (n : Nat) : List Nat := (List.range n).map fun i => 10 * i + 5

/-- indices `i < n` with `a ≤ i < b` are `a, a+1, …` -/
theorem filter_range_Ico (a b n : Nat) :
    (List.range n).filter (fun i => decide (a ≤ i) && decide (i < b)) = List.range' a (min n b - a) := by
  induction n with
  | zero => simp
  | succ n ih =>
    rw [List.range_succ, List.filter_append, ih]
    by_cases h1 : a ≤ n
    · by_cases h2 : n < b
      · have e1 : min n b - a = n - a := by omega
        have e2 : min (n + 1) b - a = (n - a) + 1 := by omega
        rw [e1, e2, List.range'_1_concat]
        have : a + (n - a) = n := by omega
        simp [h1, h2, this]
      · have e1 : min n b = b := by omega
        have e2 : min (n + 1) b = b := by omega
        simp [h1, h2, e1, e2]
    · have e1 : min n b - a = 0 := by omega
      have e2 : min (n + 1) b - a = 0 := by omega
      simp [h1, e1, e2]

/-- **general alignment lemma**: on a parametrisation whose centres are `5, 15, …, 10n−5`, for every band
`[10a, 10b]` with `a < b ≤ n` the cut `lo ≤ f ≤ hi` keeps exactly the centres `arange(lo, hi, 10) + 5`. -/
theorem progression_cut (n a b : Nat) (hab : a < b) (hbn : b ≤ n) :
    tableCentres (progression n) (10 * a) (10 * b) = antCentres (10 * a) (10 * b) := by
  unfold tableCentres antCentres progression
  rw [List.filter_map]
  have hf : ((fun f => decide (10 * a ≤ f) && decide (f ≤ 10 * b)) ∘ fun i => 10 * i + 5)
      = fun i => decide (a ≤ i) && decide (i < b) := by
    funext i
    simp only [Function.comp]
    have h1 : (10 * a ≤ 10 * i + 5) = (a ≤ i) := by apply propext; omega
    have h2 : (10 * i + 5 ≤ 10 * b) = (i < b) := by apply propext; omega
    simp only [h1, h2]
  rw [hf, filter_range_Ico]
  have e1 : min n b - a = b - a := by omega
  have e2 : (10 * b - 10 * a + 9) / 10 = b - a := by omega
  rw [e1, e2, List.range'_eq_map_range, List.map_map]
  apply List.map_congr_left
  intro i _
  simp only [Function.comp]
  omega

end RadioLemmas
